#!/bin/bash
# development aid: run the quick check of the targeted property against every stored change (seeded/*/patch.diff and mutants/*.patch),
# each applied to a fresh scratch worktree of /repo's HEAD; one line per change in matrix/last_run.log (committed: DESIGN 10.6 is built from it)
#   lib/matrix_run.sh [name-substring ...]
export GOFLAGS=-mod=mod GOPROXY=off GOSUMDB=off GOTOOLCHAIN=local
ROOT=$(cd "$(dirname "$0")/.."; pwd)   # relocatable: `vp run -- ./lib/matrix_run.sh` works on the snapshot
cd $ROOT
mkdir -p matrix /tmp/wt
LOG=$ROOT/matrix/last_run.log
W=/tmp/wt/matrix-wt
run() { # name prop patch reverse
  local name=$1 prop=$2 patch=$3 rev=$4
  git -C /repo worktree remove --force $W 2>/dev/null
  git -C /repo worktree add -q --detach $W HEAD || return
  if [ -n "$rev" ]; then git -C $W apply -R $patch; else git -C $W apply $patch; fi || { echo "$name APPLY-FAILED" | tee -a $LOG; return; }
  VERIF_REPO=$W timeout 3600 ./check $prop quick > /tmp/wt/matrix.check.log 2>&1; rc=$?
  viol=$(grep -c '^VIOLATION' /tmp/wt/matrix.check.log)
  first=$(grep -m1 '^DEVIATION' /tmp/wt/matrix.check.log | cut -c1-240)
  # replace an earlier line for the same change
  [ -f $LOG ] && grep -v "^[^ ]* $name " $LOG > $LOG.tmp; mv -f $LOG.tmp $LOG 2>/dev/null
  echo "$(date +%Y-%m-%dT%H:%M:%S) $name prop=$prop check_exit=$rc violations=$viol :: $first" | tee -a $LOG
  [ $rc -eq 2 ] && tail -4 /tmp/wt/matrix.check.log
  git -C /repo worktree remove --force $W
}
want() { [ $# -eq 0 ] && return 0; local n=$1; shift; for s in "$@"; do [[ $n == *$s* ]] && return 0; done; return 1; }
for d in seeded/*/; do
  id=$(basename $d); prop=${id:0:3}
  if [ $# -eq 0 ] || want $id "$@"; then run $id $prop $ROOT/$d/patch.diff ""; fi
done
for f in mutants/*.patch; do
  name=$(basename $f .patch); prop=$(echo $name | sed -E 's/^(revert_fix_)?(C[0-9]+).*/\2/')
  if [ $# -eq 0 ] || want $name "$@"; then
    if [[ $name == revert_fix_* ]]; then run $name $prop $ROOT/$f R; else run $name $prop $ROOT/$f ""; fi
  fi
done
