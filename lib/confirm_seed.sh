#!/bin/bash
# confirm_seed.sh <worktree> <seed-id> <demo test file relative> <property> [run regex]
# Confirms an independently written change: compiles, suite passes with it, demo fails with / passes without it;
# stores it under /verif/seeded/<seed-id>/ and runs the property's quick check against the worktree.
W=$1; ID=$2; DEMO=$3; PROP=$4; RUN=${5:-Demo}
export GOFLAGS=-mod=mod GOPROXY=off GOSUMDB=off GOTOOLCHAIN=local
cd $W || exit 2
PKG=./$(dirname $DEMO)
[ -f patch.diff ] || { echo "no patch.diff"; exit 2; }
mkdir -p /verif/seeded/$ID /tmp/wt
# new library files belong to the patch as well
for nf in $(git ls-files --others --exclude-standard | grep -v "demo_test.go\|^patch.diff$\|^meta.json$\|\.bak$"); do git add -N "$nf"; done
git diff -- . ":!$DEMO" ':!patch.diff' ':!meta.json' > /verif/seeded/$ID/patch.diff
cp $DEMO /verif/seeded/$ID/$(basename $DEMO).txt
cp meta.json /verif/seeded/$ID/agent_meta.json 2>/dev/null
go build ./... || { echo "BUILD FAILED"; exit 1; }
go test -count=1 -run "$RUN" $PKG > /tmp/wt/$ID.demo_with.log 2>&1; with=$?
mv $DEMO /tmp/wt/$ID.demo.go
go test -vet=off -count=1 -timeout 25m ./... > /tmp/wt/$ID.suite.log 2>&1; suite=$?
git apply -R /verif/seeded/$ID/patch.diff || { echo "cannot reverse"; exit 2; }
cp /tmp/wt/$ID.demo.go $DEMO
go test -count=1 -run "$RUN" $PKG > /tmp/wt/$ID.demo_without.log 2>&1; without=$?
rm $DEMO
git apply /verif/seeded/$ID/patch.diff
echo "CONFIRM $ID: demo_with_change_exit=$with (want !=0) suite_with_change_exit=$suite (want 0) demo_without_change_exit=$without (want 0)"
# the check runs on a fresh worktree of /repo's HEAD with only the seeded patch applied (the sub-agent's worktree may predate later hook commits)
CHK=/tmp/wt/chk-$ID
git -C /repo worktree remove --force $CHK 2>/dev/null
git -C /repo worktree add -q --detach $CHK HEAD && git -C $CHK apply /verif/seeded/$ID/patch.diff || { echo "patch does not apply to HEAD"; exit 2; }
cd /verif && VERIF_REPO=$CHK timeout 3000 ./check $PROP quick > /tmp/wt/$ID.check.log 2>&1; rc=$?
git -C /repo worktree remove --force $CHK
echo "CHECK $ID: prop=$PROP exit=$rc violations=$(grep -c '^VIOLATION' /tmp/wt/$ID.check.log)"; grep -m2 '^DEVIATION' /tmp/wt/$ID.check.log | cut -c1-260; grep '^RESULT\|MACHINERY' /tmp/wt/$ID.check.log
