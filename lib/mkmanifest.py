#!/usr/bin/env python3
"""Regenerates MANIFEST.json from the table below (kept in one place so the file is always valid)."""
import json, os, sys
V = os.path.dirname(os.path.dirname(os.path.abspath(__file__)))
props = [json.loads(l) for l in open(os.path.join(V, "properties.jsonl"))]
TRUST = "trusted: TLC/SANY, JDK SHA-256/BigInteger (accelerators cross-checked against their TLA+ definitions by ./check selftest), the Go driver as a sensor"
C = {
 "C05": ("TLC checks for every scalar of scaled machines that the signed-window recoding reconstructs the scalar with all table indices in range and no carry out of the top window (and that this needs the modulus headroom), and in the W73 world that the table-based multiplication with the code's mixed extended addition computes s*G for every scalar and point; at real size every recorded commitment on digit/carry-class programs is judged against sum v_i G_i computed by the specification over an SRS that is itself checked against the specified CRS derivation; table rows are compared entry by entry", "4 C05"),
 "C06": ("TLC decides on EVERY byte string of a small Bandersnatch-like world that the decoders accept exactly the canonical subgroup encodings (and shows the pre-repair decoder does not); at real size every recorded decode of the real code is judged by the specification's acceptance predicate computed from the bytes alone, with every input class required non-empty", "4 C06"),
 "C07": ("TLC explores every pair of projective representations of every element of the W37 world through the code's own formulas: Equal <=> equal bytes <=> same class, all-zero guard; at real size the Equal matrix, Bytes and decode round trips of the whole pool are judged after every call of TLC-generated API histories", "4 C07"),
 "C08": ("TLC checks on every transition of the W37 representation space that the code's projective formulas compute the affine group law, and the group laws for all points and scalars; at real size every call of TLC-generated API histories (all aliasings, scalar edge classes) is judged against the specification's group element", "4 C08"),
 "C11": ("TLC checks for all representations of the W37 world that x/y on raw coordinates is class-invariant and injective and that the batch variant agrees; at real size MapToScalarField of every pool element is judged after every call against x/y mod r computed by the specification", "4 C11"),
 "C14": ("TLC explores all operation sequences to depth 5 over a small alphabet (incl. empty strings) and checks that the specification machine, the machine as the code has it and the declarative history agree (a buffer-capacity mutant is refuted); at real size every challenge of TLC-generated operation sequences (long pending buffers, all point representations, consecutive challenges) is judged against the specified hash chain, and twin sequences differing by one edit must give different challenges exactly when their absorbed streams differ", "4 C14"),
 "C15": ("TLC checks the word-level Montgomery/CIOS, add/sub/neg/double, batch-inversion and binary-inversion algorithms against integer arithmetic mod m for every operand pair of a scaled machine; the same Field module at the real modulus validates every recorded call of the real code (three code paths, all aliasings) on the limb-class product", "4 C15"),
 "C16": ("TLC checks the decoders' specification (reduce / canonical accept iff value < r / buffer frame) on every short byte string of a one-byte world, and validates every recorded encode/decode of the real code, including the caller's buffer before/after and a second decode of the same buffer", "4 C16"),
 "C17": ("TLC checks the table-driven square-root algorithm, Tonelli-Shanks and point recovery against their definitions for EVERY element of F_193 and F_257 (same block structure as the code); at real size every recorded SqrtPrecomp/GetPointFromX call on block-value sweeps of the dyadic discrete log, special and random inputs is judged by Euler's criterion and squaring, and the exported tables are compared with their definitions (lookup keys pairwise distinct)", "4 C17"),
 "C18": ("TLC checks for EVERY polynomial over F_17 on a 4-point domain, every index and every outside point that the table-driven division and barycentric routines as written equal the textbook quotient / Lagrange coefficients and their table-free characterisations and coefficient-form evaluation; at real size every recorded quotient is judged by q_i(i-k)=f_i-f_k and the vanishing leading coefficient with A' from its defining product, coefficients by the Lagrange formula and the Vandermonde characterisation, inner products by Newton-form evaluation, all 1022 table entries by definition", "4 C18"),
 "C19": ("TLC checks every aliasing pattern of pointer lists (length 0..4) over a heap of representation-palette cells: batch = single position-wise, normalisation value-preserving and all-or-nothing, de-duplication load-bearing; at real size every batch call inside TLC-generated histories is judged position-wise against the specification", "4 C19"),
 "C20": ("TLC checks the code's range formula against the split relation on the complete (n, m) grid and all interleavings of a PlusCal model of Execute (join before return); the real Execute is run on the same complete grid and every call's observed ranges and completion count are judged by the relation", "4 C20"),
}
NA_REASON = "check under construction in this round; not yet claimed"
def chk(pid):
    text, ref = C[pid]
    return {"property_id": pid, "quick_cmd": "./check %s quick" % pid, "thorough_cmd": "./check %s thorough" % pid,
            "evidence_file": "/verif/evidence/%s.json" % pid, "replay_cmd_template": "./check %s --replay {path}" % pid, "engine": "tla-trace",
            "level_claimed": {"category": "model_checking", "text": text, "design_ref": ref}, "level_note": TRUST,
            "technique": "explicit TLA+ specification: TLC model checking at small constants + TLC validation of traces recorded from the real code replaying TLC-generated programs"}
hooks = [l.split()[0] for l in os.popen("git -C /repo log --format='%h %s' | grep 'verif hooks'").read().splitlines()]
m = {"version": 1, "setup_cmd": "./setup.sh",
     "hooks": {"guard": "verif", "enable": "go build -tags verif (the harness module replaces github.com/crate-crypto/go-ipa by /repo)",
               "baseline_off_cmd": "cd /repo && GOFLAGS=-mod=mod go test -vet=off -count=1 -timeout 25m ./...", "source_commits": hooks, "add_only": True},
     "engines": [{"name": "tla-trace", "path": "/verif/check", "serves_properties": sorted(C),
                  "kind_free_text": "TLA+ specification (spec/core) model checked by TLC at small constants (spec/small) and, instantiated at the real constants (spec/real), used by TLC to validate NDJSON traces recorded from the real code by a Go driver (harness/) that replays TLC-generated programs (spec/gen)"}],
     "checks": [chk(p) for p in sorted(C)],
     "not_applicable": [{"property_id": p["id"], "reason": NA_REASON} for p in props if p["id"] not in C],
     "notes": "see DESIGN.md; known_findings.json lists repaired defects"}
json.dump(m, open(os.path.join(V, "MANIFEST.json"), "w"), indent=1)
print("MANIFEST: %d checks, %d not applicable" % (len(m["checks"]), len(m["not_applicable"])))
