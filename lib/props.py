"""Per-property pipelines.  Each function takes a vlib.Check and returns the exit code."""
import json, os, re
import vlib
from vlib import Machinery, log

CHECKS = {}

def check(pid):
    def deco(f):
        CHECKS[pid] = f
        return f
    return deco


def selftest(seed):
    vlib.ensure_classes()
    real = os.path.join(vlib.SPEC, "real")
    lib = [os.path.join(vlib.SPEC, "core")]
    rc = 0
    for mod in ("SelfTestBigNat", "SelfTestSha", "SelfTestCurve", "KAT"):
        r = vlib.tlc(mod, real, cfg=mod + ".cfg", env={"VERIF_SEED": seed}, workers=1, timeout=1800, lib=lib, heap="4g")
        log("selftest %-16s %s (%.0fs)" % (mod, "ok" if r["ok"] else "FAILED", r["wall"]))
        if not r["ok"]:
            log(vlib.clean_out(r["out"])[-3000:])
            rc = 2
    return rc


def replay(prop, path, seed):
    """Re-runs the single program of a recorded violation on the current tree and validates its trace."""
    rp = json.load(open(path))
    log("replay of %s: %s" % (path, json.dumps(rp.get("deviation", {}).get("what"))))
    if not rp.get("program") or not rp.get("family") or not rp.get("trace_module"):
        log("replay file carries no single program: running the whole quick check instead")
        return CHECKS[prop](vlib.Check(prop, rp.get("tier", "quick"), rp.get("seed", seed)))
    c = vlib.Check(prop, rp.get("tier", "quick"), rp.get("seed", seed))
    pf = os.path.join(c.dir, "replay.jsonl")
    open(pf, "w").write(rp["program"] + "\n")
    files = c.drive(rp["family"], pf, shards=1, args=rp.get("driver_args") or None, env=rp.get("driver_env") or None, taskset=rp.get("taskset"), race=bool(rp.get("race")))
    c.validate(rp["trace_module"], files, heap="6g", timeout=3600)
    c.count_classes(files, lambda e: json.dumps(e)[:200])
    c.sample_events(files, 1)
    vlib.REPLAY_MODE = True
    return c.finish(rule="replay of one recorded program", min_events=1)


# ------------------------------------------------------------------------------------------ C15 / C16

def field_class(e):
    if e.get("ev") == "fieldop":
        return ("f", e["op"], tuple(e.get("x") or ()), tuple(e.get("y") or ()))
    if e.get("ev") == "codec":
        return ("c", e["fn"], e.get("val"), len(e.get("buf") or ()))
    return None


@check("C15")
def c15(c):
    quick = c.tier == "quick"
    c.small("MC_Mont", cfg="MC_Mont.cfg")
    if not quick:
        c.small("MC_Mont", cfg="MC_Mont3.cfg", timeout=7200)
    exe = vlib.build_harness()
    rounds = [("main", {"VERIF_PART": "field"})] + ([] if quick else [("band%d" % b, {"VERIF_PART": "field", "VERIF_BAND": b}) for b in range(8)])
    for name, env in rounds:
        progs = c.generate("Gen_Field", name="prog-" + name, env=env)
        files = c.drive("field", progs, name="tr-" + name, shards=vlib.NCPU, binary=exe)
        c.validate("Trace_Field", files, heap="3g", timeout=7200)
        c.count_classes(files, field_class)
        if name == "main":
            c.sample_events(files, 3)
        for f in files:
            os.remove(f)
    c.count_classes(misc_run(c, "c15"), misc_class)       # LexicographicallyLargest, Cmp, big.Int conversions (spec/core/Misc.tla)
    if not quick:
        c.extra["complete_cross_product"] = "mul: all 7^4 x 7^4 = 5,764,801 pairs of limb-class words, in 8 bands; add/sub/div: 7^4 x 3^4 pairs"
    return c.finish(rule="one event per (operation, operand pair); operands: all 7^4 limb-class words of the raw Montgomery representation "
                         "(per 64-bit limb one of 0,1,2^63,2^64-1,q_i-1,q_i,q_i+1) against diagonal/pivots/specials (thorough: the complete cross product for mul), 28 named boundary values, seeded random; "
                         "every event carries the outputs of each code path (asm with ADX, asm without ADX, portable generic) and each receiver/operand aliasing; "
                         "distinct = distinct (op, x, y) triples", min_events=1000)


@check("C16")
def c16(c):
    c.small("MC_Codec8", cfg="MC_Codec8.cfg")
    progs = c.generate("Gen_Field", env={"VERIF_PART": "codec"})
    files = c.drive("field", progs)
    c.validate("Trace_Field", files)
    c.count_classes(files, field_class)
    c.sample_events(files, 3)
    return c.finish(rule="one event per (decoder/encoder, length 0..64, value class); value classes 0,1,255,256,r-1,r,r+1,2r,3r,4r+1,5r-1,8r-1,8r,(r-1)/2 and neighbours,p-1,p,2^255,2^256-1,r +- 2^64/2^128/2^192, r with random low 64/128/192 bits,all-ones,msb-only,lsb-only,random; "
                         "each decode is done twice into a fresh receiver and once into a receiver that already holds a value, and the buffer is compared before/after; distinct = distinct (function, value class, length)", min_events=100)


# ------------------------------------------------------------------------------------------ misc family (behaviour outside the listed properties' main paths)

def misc_class(e):
    return ("misc", e["kind"], e["n"], e["w"], e["val"], e["val2"], e["k"])


def misc_run(c, part):
    progs = c.generate("Gen_Misc", name="prog-misc-" + part, env={"VERIF_PART": part})
    files = c.drive("misc", progs, name="tr-misc-" + part, shards=vlib.NCPU)
    c.validate("Trace_Misc", files)
    return files


@check("AUX")
def aux(c):
    c.small("MC_Misc", cfg="MC_Misc.cfg")
    files = misc_run(c, "all")
    need = ["powers", "crs", "precomp", "ext", "unsafe", "oncurve", "uncio", "proofeq", "fr/lex", "fr/cmp", "fr/bit", "fr/bigint", "fr/string", "fr/iface", "fr/random"]
    missing = [k for k in need if c.judged.get(k, 0) == 0]
    c.guard(not missing, "misc kinds without any member: %s" % missing)
    c.count_classes(files, misc_class)
    c.sample_events(files, 2)
    return c.finish(rule="one event per (kind, parameters, seeded member): PowersOf, GenerateRandomPoints, PrecompPoint with window sizes 1,2,4,8,16 and invalid ones, extended-coordinate helpers, "
                         "SetBytesUnsafe, IsOnCurve, uncompressed affine I/O, proof equality under single-component changes, scalar-field inspection/conversion helpers", min_events=100)


# ------------------------------------------------------------------------------------------ group family

def group_class(e):
    if e.get("ev") == "g":
        return ("g", e["op"], e.get("d"), e.get("a"), e.get("b"), e.get("sc"), tuple(e.get("l") or ()))
    if e.get("ev") == "decode":
        return ("d", e["fn"], e["cls"], tuple(e["buf"][:6]))
    return None


def group_pipeline(c, nprog_quick=240, nprog_thorough=15000, depth_quick=16, depth_thorough=30):
    n = nprog_quick if c.tier == "quick" else nprog_thorough
    depth = depth_quick if c.tier == "quick" else depth_thorough
    progs = c.generate("Gen_Group", env={"VERIF_DEPTH": depth}, simulate="num=%d" % n)
    files = c.drive("group", progs, shards=max(1, min(vlib.NCPU, n // 12)))
    # the fixed sweep: every distinguished element in every raw representative through every operation
    sweep = c.generate("Gen_GroupSweep", name="prog-sweep")
    files += c.drive("group", sweep, name="tr-sweep", shards=vlib.NCPU)
    # BatchNormalize splits its list among NumCPU workers: part of the histories again on 3 (thorough: 3, 5, 7) CPUs
    sub = os.path.join(c.dir, "prog-group-cpu.jsonl")
    with open(sub, "w") as fh:
        for i, ln in enumerate(open(progs)):
            if i < (60 if c.tier == "quick" else 300):
                fh.write(ln)
    with open(sub, "a") as fh:                       # ... and the large batches of the sweep
        for ln in open(sweep):
            if re.search(r'"op":"B(norm|bytes|unc|map)"', ln):
                fh.write(ln)
    for ncpu in ([3] if c.tier == "quick" else [3, 5, 7]):
        if ncpu < vlib.NCPU:
            files += c.drive("group", sub, name="tr-cpu%d" % ncpu, shards=4, taskset="0-%d" % (ncpu - 1))
    c.validate("Trace_Group", files, timeout=10800)
    c.count_classes(files, group_class)
    c.sample_events(files, 2, keep=lambda e: e.get("ev") == "g" and e.get("k", 0) > 6)
    return files

GROUP_RULE = ("API histories generated by TLC simulation of Gen_Group (pool of 5 element slots; add/sub/double/neg/set/scalar mul/mixed add/"
              "normalise/rescale/flip/encode-decode/MSM/batch helpers with every receiver-operand aliasing and pointer-list aliasing; scalar classes "
              "0,1,2,3,r-1,r-2,(r-1)/2,2^63,2^64-1,2^64,2^128,2^252, GLV eigenvalue +-1, single-word Montgomery forms, random; elements built from the y side "
              "(y next to (p-1)/2 limb by limb) and from a chosen ratio x/y (next to k*r, p, 0, limb boundaries); distinguished elements in every raw representative); "
              "private-heap batches of 0..300 pointers with six aliasing patterns, structured Z coordinates (product one) and boundary elements; a fixed sweep of "
              "G, -G, 2G, identity, SRS[0], -SRS[0] x four raw representatives x every operation; part of the histories again on 3 CPUs; after EVERY call the whole "
              "pool is observed (raw coordinates, Equal matrix, Bytes, MapToScalarField) and judged; distinct = distinct (op, slots, scalar class, pointer list) tuples")


@check("C07")
def c07(c):
    c.small("MC_Group", cfg="MC_Group_quick.cfg" if c.tier == "quick" else "MC_Group.cfg", timeout=1800)
    group_pipeline(c)
    return c.finish(rule=GROUP_RULE, min_events=500)


@check("C08")
def c08(c):
    c.small("MC_Group", cfg="MC_Group_quick.cfg" if c.tier == "quick" else "MC_Group.cfg", timeout=1800)
    group_pipeline(c)
    return c.finish(rule=GROUP_RULE, min_events=500)


@check("C11")
def c11(c):
    c.small("MC_Group", cfg="MC_Group_quick.cfg" if c.tier == "quick" else "MC_Group.cfg", timeout=1800)
    c.small("MC_Batch", cfg="MC_Batch.cfg")
    group_pipeline(c)
    return c.finish(rule=GROUP_RULE, min_events=500)


@check("C19")
def c19(c):
    c.small("MC_Batch", cfg="MC_Batch.cfg")
    c.small("MC_Batch", cfg="MC_Batch_nodedupe.cfg", expect_violation=True)
    group_pipeline(c)
    return c.finish(rule=GROUP_RULE, min_events=500)


@check("C06")
def c06(c):
    c.small("MC_Decode", cfg="MC_Decode.cfg")
    c.small("MC_Decode", cfg="MC_Decode_legacy.cfg", expect_violation=True)
    progs = c.generate("Gen_Decode")
    files = c.drive("decode", progs, shards=vlib.NCPU)
    c.validate("Trace_Decode", files)
    need = ["SetBytes/accept", "SetBytes/x>=p", "SetBytes/offcurve", "SetBytes/nonsubgroup", "SetBytes/len",
            "SetBytesUncompressed/accept", "SetBytesUncompressed/x>=p", "SetBytesUncompressed/y>=p", "SetBytesUncompressed/ywrong",
            "SetBytesUncompressed/offcurve", "SetBytesUncompressed/nonsubgroup", "SetBytesUncompressed/len",
            "ReadPoint/accept", "ReadPoint/x>=p", "ReadPoint/offcurve", "ReadPoint/nonsubgroup", "ReadPoint/len",
            "SetBytes/accept-yboundary", "SetBytesUncompressed/accept-yboundary", "ReadPoint/accept-yboundary"]
    missing = [k for k in need if c.judged.get(k, 0) == 0]
    c.guard(not missing, "input classes (as classified by the specification) without any member: %s" % missing)
    c.count_classes(files, group_class)
    c.sample_events(files, 3)
    return c.finish(rule="entry point x input class x seeded member; classes as classified by the specification from the bytes: accept, accept with y at the boundary of the sign choice ((p-1)/2, limb by limb), wrong length, x>=p, y>=p, "
                         "off curve, wrong/non-canonical y, outside the subgroup; every class must be non-empty; inputs built from x (random, boundary) and from the y side (canonical y next to (p-1)/2 limb by limb, next to p); "
                         "all 81 limb patterns of x around p and 27 of y around (p-1)/2; valid encodings of the OTHER format, x || x, padded; every decode also into a receiver that already holds "
                         "an element, and for every second input after the trusted decoders have seen the same bytes; distinct = distinct inputs", min_events=300)


# ------------------------------------------------------------------------------------------ C20

@check("C20")
def c20(c):
    quick = c.tier == "quick"
    c.small("MC_Parallel", cfg="MC_Parallel_quick.cfg" if quick else "MC_Parallel.cfg")
    c.small("MC_Execute", cfg="MC_Execute.cfg")
    c.small("MC_Execute", cfg="MC_Execute_early.cfg", expect_violation=True)
    # for ALL n >= 0, m >= 1: the loop of Execute with an inductive invariant, discharged symbolically
    c.apalache("ExecuteInd", [("Init => IndInv", ["--cinit=CInit", "--init=Init", "--inv=IndInv", "--length=0"], False),
                              ("IndInv /\\ Next => IndInv'", ["--cinit=CInit", "--init=IndInit", "--inv=IndInv", "--length=1"], False),
                              ("IndInv => Safe", ["--cinit=CInit", "--init=IndInit", "--inv=Safe", "--length=0"], False),
                              ("mutant (remainder dropped) refuted", ["--cinit=CInitMut", "--init=Init", "--inv=Safe", "--length=4"], True)])
    bands = [(0, 300, 64)] if quick else [(lo, min(lo + 255, 2048), 300) for lo in range(0, 2049, 256)]
    exe = vlib.build_harness()
    for (lo, hi, mhi) in bands:
        progs = c.generate("Gen_Par", name="prog-%d" % lo, env={"VERIF_NLO": lo, "VERIF_NHI": hi, "VERIF_MHI": mhi})
        files = c.drive("exec", progs, name="tr-%d" % lo, shards=vlib.NCPU, binary=exe)
        c.validate("Trace_Par", files, heap="5g", c1=True)
        c.count_classes(files, lambda e: (e["n"], e["m"], e["default"]))
        if lo == 0:
            c.sample_events(files, 2, keep=lambda e: e["n"] > 10 and e["m"] > 2)
        for f in files:
            os.remove(f)
    c.exhaustive = True
    c.extra["grid"] = "n in 0..%d x m in 1..%d, complete, on the model and on the real Execute" % (bands[-1][1], bands[-1][2])
    return c.finish(rule="one event per call Execute(n, work, m) for every (n, m) of the complete grid, work function with seeded yields/sleeps, plus the default-limit form; "
                         "many simultaneous callers (2, 17, 40, 100) and re-entrant calls (1, 2, 17, 20 levels); distinct = distinct (n, m, form)", min_events=1000,
                    assumptions=["the too-early-return clause is observed on the schedules the Go runtime produced (with seeded yields and sleeps inside the work function); "
                                 "all interleavings are explored only in the PlusCal model MC_Execute (n<=5, m<=3)"])


# ------------------------------------------------------------------------------------------ C14

@check("C14")
def c14(c):
    quick = c.tier == "quick"
    c.small("MC_Transcript", cfg="MC_Transcript.cfg")
    c.small("MC_Transcript", cfg="MC_Transcript_cap.cfg", expect_violation=True)
    n = 300 if quick else 4000
    progs = c.generate("Gen_Transcript", env={"VERIF_DEPTH": 12 if quick else 40}, simulate="num=%d" % n)
    files = c.drive("transcript", progs, shards=max(1, min(vlib.NCPU, n // 20)), timeout=7200)
    c.validate("Trace_Transcript", files, heap="6g")
    need = ["challenge", "challenge-near-kr", "msg", "scalar", "point", "domsep"]
    missing = [k for k in need if c.judged.get(k, 0) == 0]
    twins = [k for k in c.judged if k.startswith("twin/")]
    c.guard(not (missing or not any(k.endswith("/diff") for k in twins) or not any(k.endswith("/same") for k in twins)),
            "transcript operation kinds or twin classes missing: %s %s" % (missing, twins))
    c.count_classes(files, lambda e: (e["op"], tuple(e["label"]), json.dumps(e.get("msg", e.get("sval", e.get("coords", 0))))[:80], e["run"], e["pending_len"]))
    c.sample_events(files, 2, keep=lambda e: e["op"] == "challenge")
    return c.finish(rule="operation sequences from TLC simulation of Gen_Transcript (labels/messages incl. empty, 40-byte labels, call labels and protocol labels of 55..300 bytes around the SHA-256 block and padding boundaries, messages of 32..70000 bytes crossing 1024/4096/65536 pending bytes, "
                         "scalars 0,1,5,r-1,r-2,2^128,random, points in normalised/rescaled/sign-flipped/projective representations, consecutive challenges, scratch variables reused after in-place changes, "
                         "messages found by search so that the next digest lies within 2^240 of k*r), each run twice with one edit "
                         "(label / argument / order / none); every challenge judged, twin streams compared; distinct = distinct (op, label, argument, run, pending length)", min_events=1000)


# ------------------------------------------------------------------------------------------ C17

@check("C17")
def c17(c):
    c.small("MC_Sqrt", cfg="MC_Sqrt193.cfg", workers=8)
    c.small("MC_Sqrt", cfg="MC_Sqrt257.cfg", workers=8)
    progs = c.generate("Gen_Sqrt")
    files = c.drive("sqrt", progs, shards=vlib.NCPU)
    c.validate("Trace_Sqrt", files)
    need = ["tables", "sqrt/dlog/some", "sqrt/dlog/nil", "sqrt/random/nil", "sqrt/random/some", "pointfromx/point/some", "pointfromx/point/nil", "sqrt/special/some"]
    missing = [k for k in need if c.judged.get(k, 0) == 0]
    c.guard(not missing, "classes without any member: %s" % missing)
    c.count_classes(files, lambda e: (e["ev"], tuple(e.get("v") or e.get("x") or ()), e.get("largest")))
    c.sample_events(files, 2, keep=lambda e: e["ev"] != "sqrt_tables")
    return c.finish(rule="for each of the four 8-bit blocks of the 32-bit dyadic discrete log a sweep over all 256 block values (other blocks zero/random, odd-order factor trivial/random), "
                         "special values, seeded random elements, squares and x-coordinates (both sign choices), all 81 patterns of the four stored (Montgomery) limbs over {0,1,random} as root input / squared / as the ratio behind an x-coordinate, and the exported tables (33 dyadic roots, 4x256 block entries, 256 lookup keys) "
                         "against their definitions; distinct = distinct inputs", min_events=2000)


# ------------------------------------------------------------------------------------------ C18

@check("C18")
def c18(c):
    quick = c.tier == "quick"
    c.small("MC_Poly", cfg="MC_Poly.cfg")
    if not quick:
        c.small("MC_Poly", cfg="MC_Poly8.cfg", timeout=1800)
    progs = c.generate("Gen_Poly")
    files = c.drive("poly", progs, shards=vlib.NCPU)
    # the weight tables are built when the configuration is created: again in processes started with GOMAXPROCS = 3 (thorough: 3, 5, 6, 7, 12)
    # and on 5 (thorough: 1, 3, 5, 7, 12) CPUs - worker counts that do not divide 256
    for gmp in ([3] if quick else [3, 5, 6, 7, 12]):
        files += c.drive("poly", progs, name="tr-gmp%d" % gmp, shards=4, env={"GOMAXPROCS": gmp})
    for ncpu in ([5] if quick else [1, 3, 5, 7, 12]):
        if ncpu < vlib.NCPU:
            files += c.drive("poly", progs, name="tr-cpu%d" % ncpu, shards=4, taskset="0-%d" % (ncpu - 1))
    c.validate("Trace_Poly", files, heap="4g")
    need = ["divide", "bary", "bary-full", "poly_tables"]
    missing = [k for k in need if c.judged.get(k, 0) == 0]
    c.guard(not missing, "event kinds without any member: %s" % missing)
    c.count_classes(files, lambda e: (e["ev"], e.get("cls"), e.get("idx"), e.get("fcls"), json.dumps(e.get("f", 0))[:60]))
    c.samples.append({"note": "events carry 256-entry vectors; abbreviated", "example": {"ev": "divide", "cls": "unit", "idx": 255, "f": "e_0 (256 limbs arrays)", "out": "quotient (256 limb arrays)"}})
    return c.finish(rule="DivideOnDomain on 13 polynomial classes (random, unit vectors at 0/128/255, r-1 at one index, constant, X^255, all r-1, linear, sparse, small, zero) x domain indices "
                         "(quick: 0,1,54,55,127,128,200,201,254,255 + 2 seeded; thorough: all 256); barycentric coefficients for 13 point classes (256, 257, 300, 65536, 2^64, (r-1)/2, r-2, r-1, random, limb-structured 2^64+5 / 2^128+255 / 2^192+5; repeated evaluations with the returned vector used as scratch in between) "
                         "x 4 polynomials incl. the Vandermonde characterisation; all 512+510 table entries; everything again in processes started with GOMAXPROCS=3 and on 5 CPUs "
                         "(thorough: 3,5,6,7,12 / 1,3,5,7,12); distinct = distinct (kind, class, index, polynomial)", min_events=100)


# ------------------------------------------------------------------------------------------ C05

@check("C05")
def c05(c):
    quick = c.tier == "quick"
    c.small("MC_Recode", cfg="MC_Recode.cfg", workers=4)
    c.small("MC_Recode", cfg="MC_Recode16.cfg")
    c.small("MC_Recode", cfg="MC_Recode_nohead.cfg", workers=4, expect_violation=True)
    c.small("MC_Precomp", cfg="MC_Precomp.cfg", workers=8)
    # the recoding loop for ANY scalar and ANY number of windows: bases 2^8, 2^16, then EVERY even base up to 2^21 (inductive invariant, Apalache)
    obl = []
    for ci in ("CInit8", "CInit16", "CInitAny"):
        obl += [("%s: Init => IndInv" % ci, ["--cinit=" + ci, "--init=Init", "--inv=IndInv", "--length=0"], False),
                ("%s: IndInv /\\ Next => IndInv'" % ci, ["--cinit=" + ci, "--init=IndInit", "--inv=IndInv", "--length=1"], False),
                ("%s: IndInv => Safe" % ci, ["--cinit=" + ci, "--init=IndInit", "--inv=Safe", "--length=0"], False)]
    obl += [("mutant (carry never cleared) refuted", ["--cinit=CInitMut", "--init=Init", "--inv=Safe", "--length=3"], True),
            ("non-vacuity: a completed three-window run exists", ["--cinit=CInit8", "--init=Init", "--inv=NoCompletedRun", "--length=5"], True)]
    c.apalache("RecodeInd", obl)
    progs = c.generate("Gen_Commit")
    files = c.drive("commit", progs, shards=vlib.NCPU if not quick else 8)
    # the configuration (CRS, precomputed tables: built by parallel workers) created on machines with 3 (thorough: 1, 3, 5, 7) CPUs:
    # table rows, vectors, the CRS check and the reuse programs again
    sub = os.path.join(c.dir, "prog-commit-cpu.jsonl")
    with open(sub, "w") as fh:
        for ln in open(progs):
            if json.loads(ln)["kind"] in ("table", "vec", "crs", "reuse", "lin"):
                fh.write(ln)
    for ncpu in ([3] if quick else [1, 3, 5, 7]):
        if ncpu < vlib.NCPU:
            files += c.drive("commit", sub, name="tr-cpu%d" % ncpu, shards=4, taskset="0-%d" % (ncpu - 1))
    c.validate("Trace_Commit", files, heap="6g", timeout=3600)
    need = ["crs_check", "table", "linlaw", "vec/rnd", "vec/empty", "vec/rminus1", "vec/hot", "digit/half", "digit/half+1", "digit/max", "digit/0"]
    missing = [k for k in need if c.judged.get(k, 0) == 0]
    c.guard(not missing, "classes without any member: %s" % missing)
    c.count_classes(files, lambda e: (e["ev"], e.get("cls"), tuple(e.get("idx") or ()), json.dumps(e.get("vals", 0))[:80], e.get("pos"), e.get("win")) if e["ev"] != "config" else None)
    c.sample_events(files, 2, keep=lambda e: e["ev"] == "commit" and e["cls"].startswith("digit"))
    # GenerateRandomPoints for other lengths, PrecompPoint with every window size, the extended-coordinate helpers (spec/core/Misc.tla)
    c.count_classes(misc_run(c, "c05"), misc_class)
    return c.finish(rule="digit-class programs (basis position class x window index x digit class {0,1,half-1,half,half+1,max-1,max} x carry-chain length {0,1,2,4,5,8,9,16} x rest zero/random), "
                         "vector classes (random, ones, r-1, single hot coefficient, first five, small, empty) x lengths {0,1,5,6,255,256}, linearity programs, table rows read through the hook, "
                         "the CRS derivation, one slice committed repeatedly after in-place changes, the configuration built under taskset with 3 (thorough 1,3,5,7) CPUs; GenerateRandomPoints for other lengths, "
                         "PrecompPoint with window sizes 1..16 and the extended-coordinate helpers (misc family); distinct = distinct (kind, class, indices, values)", min_events=500)


# ------------------------------------------------------------------------------------------ C09

@check("C09")
def c09(c):
    quick = c.tier == "quick"
    c.small("MC_MsmChooser", cfg="MC_MsmChooser_quick.cfg" if quick else "MC_MsmChooser.cfg", timeout=3600)
    c.small("MC_MsmPartition", cfg="MC_MsmPartition.cfg")
    if not quick:
        c.small("MC_MsmPartition", cfg="MC_MsmPartition24.cfg", timeout=7200)
    c.small("MC_MsmChan", cfg="MC_MsmChan.cfg", workers=4)
    c.small("MC_MsmChan", cfg="MC_MsmChan_nosplit.cfg", workers=4)
    c.small("MC_MsmChan", cfg="MC_MsmChan_overflow.cfg", workers=4, expect_violation=True)
    # the signed-digit rule of partitionScalars for ANY scalar, ANY number of windows and EVERY window width up to 21 (inductive invariant, Apalache)
    c.apalache("RecodeInd", [("CInitMsm: Init => IndInv", ["--cinit=CInitMsm", "--init=Init", "--inv=IndInv", "--length=0"], False),
                             ("CInitMsm: IndInv /\\ Next => IndInv'", ["--cinit=CInitMsm", "--init=IndInit", "--inv=IndInv", "--length=1"], False),
                             ("CInitMsm: IndInv => Safe", ["--cinit=CInitMsm", "--init=IndInit", "--inv=Safe", "--length=0"], False),
                             ("mutant (carry never cleared) refuted", ["--cinit=CInitMsmMut", "--init=Init", "--inv=Safe", "--length=3"], True),
                             ("non-vacuity: a completed three-window run exists", ["--cinit=CInitMsm", "--init=Init", "--inv=NoCompletedRun", "--length=5"], True)])
    progs = c.generate("Gen_MSM")
    files = c.drive("msm", progs, shards=vlib.NCPU, timeout=3600)
    # the default task count (NbTasks = 0 -> runtime.NumCPU()) and ipa.MultiScalar on machines with 3 and 5 (thorough: 1, 2, 3, 5, 6, 7, 12) CPUs
    sub = os.path.join(c.dir, "prog-msm-cpu.jsonl")
    with open(sub, "w") as fh:
        for ln in open(progs):
            pr = json.loads(ln)
            if (pr["kind"] == "api" and pr["tasks"] == 0 and pr["points"] == "srs") or pr["kind"] in ("multiscalar", "reuse"):
                fh.write(ln)
    for ncpu in ([3, 5] if quick else [1, 2, 3, 5, 6, 7, 12]):
        if ncpu < vlib.NCPU:
            files += c.drive("msm", sub, name="tr-cpu%d" % ncpu, shards=4, timeout=3600, taskset="0-%d" % (ncpu - 1))
    c.validate("Trace_MSM", files, heap="6g", timeout=3600)
    need = ["api", "multiscalar", "mismatch"] + ["inner/c%d" % k for k in (4, 5, 6, 7, 8, 9, 10, 11, 12, 13, 14, 15, 16)] + ["inner/c20/split", "inner/c21/split", "inner/c6/split"]
    missing = [k for k in need if c.judged.get(k, 0) == 0]
    c.guard(not missing, "classes without any member: %s" % missing)
    c.count_classes(files, lambda e: (e["kind"], e["n"], e["tasks"], e["mont"], e["small"], e["pcls"], e["scls"], e.get("c"), e.get("split"), e.get("numcpu")))
    c.samples.append({"kind": "api", "n": 17, "tasks": 3, "mont": True, "points": "proj", "scalars": "edge", "note": "events carry all points (affine) and scalars; abbreviated"})
    return c.finish(rule="MultiExp through the group-level entry point for every n at which the chosen window changes (from the chooser model) +-1 and the structural sizes 0..257 x NbTasks "
                         "{0,1,3,16,64,1024,..} x both scalar forms; point classes (SRS, duplicates, with identity, sign-flipped, projective, all equal) x scalar classes (random, zero, one, edge values, "
                         "all-ones windows, half-range windows) ; small-scalar shares 9/10/11/50/100 %; the internal entry point for every implemented window c in 4..16,20,21 with and without "
                         "first-chunk split incl. decoding of the partitioned scalars, with repeated points / P next to -P / identity for every width; length mismatch; ipa.MultiScalar; MultiExpAffine; the same slices "
                         "after in-place changes; the default task count under taskset with 3 and 5 (thorough 1,2,3,5,6,7,12) CPUs; distinct = distinct parameter tuples", min_events=500)


# ------------------------------------------------------------------------------------------ proof family: C01 C02 C03 C04 C10

def proof_class(e):
    ev = e.get("ev")
    if ev == "prove":
        return ("prove", tuple(e["zs"]), tuple(e["pidx"]), tuple(e["label"]), e["numcpu"], e["gomaxprocs"])
    if ev == "verify":
        return ("verify", e["what"], e["to"], e["i"], tuple(e["zs"]), tuple(e["label"]))
    if ev == "ipa_prove":
        return ("ipa_prove", tuple(e["point"]), json.dumps(e["f"])[:60])
    if ev == "ipa_verify":
        return ("ipa_verify", e["prog"], e["rcls"], e["pcls"])
    if ev == "read":
        return ("read", e["src"], e["bcls"], e["rcls"], tuple(e["data"][:40]), len(e["data"]))
    if ev == "write":
        return ("write", e["src"], e["fault"])
    return None


def proof_sample(c, files, kinds):
    for f in files[:4]:
        for line in open(f):
            e = json.loads(line)
            if e.get("ev") in kinds:
                small = {k: v for k, v in e.items() if k not in ("polys", "cs_before", "cs_after", "cs", "f", "proof", "bytes", "data", "rewritten")}
                small["note"] = "large fields (polynomials, coordinates, bytes) omitted from the sample"
                c.samples.append(small)
                break


def mp_runs(c, part, cpus, extra_env=None):
    """generate programs for `part` and run them under each CPU setting; returns trace files"""
    files = []
    exe = vlib.build_harness()
    cpus = [(n, g) for (n, g) in cpus if n <= vlib.NCPU]          # affinity masks beyond the machine's CPUs cannot be set
    for (ncpu, gmp) in cpus:
        progs = c.generate("Gen_Proof", name="prog-%s-%d-%s" % (part, ncpu, gmp), env={"VERIF_PART": part, "VERIF_NCPU": ncpu})
        n = sum(1 for _ in open(progs))
        env = {"GOMAXPROCS": gmp} if gmp else None
        files += c.drive("proof", progs, name="tr-%s-%d-%s" % (part, ncpu, gmp), shards=(2 if part in ("mp_cpu", "mp_arrival") else max(1, min(10 if part == "mp_honest" else vlib.NCPU, n // 2))), binary=exe,
                         taskset=("0-%d" % (ncpu - 1)) if ncpu < vlib.NCPU else None, env=env, timeout=3600)
    return files

MP_ASSUME = ["Fiat-Shamir challenges avoid the protocol's exceptional values (t in the domain, a zero challenge): probability about 2^-245 per proof at real size; "
             "the small-world model states the side conditions explicitly",
             "the SRS the code holds is the specified CRS (checked by C05's trace specification, not re-derived here)"]


@check("C01")
def c01(c):
    quick = c.tier == "quick"
    c.small("MC_Proofs", cfg="MC_Proofs_honest.cfg" if quick else "MC_Proofs_n3.cfg", timeout=7200)
    c.small("MC_Proofs", cfg="MC_Proofs_denidx.cfg", expect_violation=True)
    # "on any CPU count", for ALL n and W: the worker batches cover every opening exactly once (inductive invariant, Apalache)
    c.apalache("GroupSplitInd", [("Init => IndInv", ["--cinit=CInit", "--init=Init", "--inv=IndInv", "--length=0"], False),
                                 ("IndInv /\\ Next => IndInv'", ["--cinit=CInit", "--init=IndInit", "--inv=IndInv", "--length=1"], False),
                                 ("IndInv => Safe", ["--cinit=CInit", "--init=IndInit", "--inv=Safe", "--length=0"], False),
                                 ("mutant (batch size rounded down) refuted", ["--cinit=CInitMut", "--init=Init", "--inv=Safe", "--length=4"], True)])
    files = mp_runs(c, "mp_honest", [(vlib.NCPU, "")])
    files += mp_runs(c, "mp_cpu", [(1, ""), (3, ""), (5, "2")] if quick else [(k, "") for k in (1, 2, 3, 4, 5, 7, 8, 11, 13)] + [(5, "2"), (16, "1"), (16, "4")])
    files += mp_runs(c, "mp_arrival", [(vlib.NCPU, "")] if quick else [(vlib.NCPU, ""), (4, ""), (7, "")])
    c.validate("Trace_Proof", files, heap="6g", timeout=7200)
    c.guard(not (c.judged.get("prove", 0) == 0 or c.judged.get("verify/none/accepted", 0) == 0 or c.judged.get("prove/forced-arrival", 0) == 0),
            "no prove / honest verify / forced-arrival prove judged")
    c.count_classes(files, proof_class)
    proof_sample(c, files, ("prove", "verify"))
    return c.finish(rule="opening shapes from Gen_Proof (n in 1..4, 7, NumCPU-1, NumCPU, NumCPU+1, 2*NumCPU+3 [thorough: .. 300]; index patterns with repeats, gaps and both domain ends; "
                         "polynomial palette zero/constant/unit/max/X^255/sparse/small/random; shared commitment pointers; normalised/projective/sign-flipped commitments; 5 labels), "
                         "each proved and verified on the real code under NumCPU 16 and under taskset 1,3,5 (thorough: 1..13) and GOMAXPROCS variants; distinct = distinct (kind, zs, polys, label, cpu setting)",
                    min_events=100, assumptions=MP_ASSUME)


@check("C03")
def c03(c):
    quick = c.tier == "quick"
    c.small("MC_Proofs", cfg="MC_Proofs_honest.cfg" if quick else "MC_Proofs_n3.cfg", timeout=7200)
    files = mp_runs(c, "mp_honest", [(vlib.NCPU, "")])
    files += mp_runs(c, "mp_cpu", [(1, ""), (3, ""), (5, "2")] if quick else [(k, "") for k in (1, 2, 3, 4, 5, 7, 8, 11, 13)] + [(5, "2"), (16, "1"), (16, "4")])
    files += mp_runs(c, "mp_arrival", [(vlib.NCPU, "")] if quick else [(vlib.NCPU, ""), (4, ""), (7, "")])
    files += mp_runs(c, "ipa_few" if quick else "ipa", [(vlib.NCPU, "")])
    c.validate("Trace_Proof", files, heap="6g", timeout=7200)
    c.guard(not (c.judged.get("prove", 0) == 0 or c.judged.get("ipa_prove/in", 0) == 0 or c.judged.get("ipa_prove/out", 0) == 0), "no prove / ipa_prove judged")
    c.count_classes(files, proof_class)
    proof_sample(c, files, ("prove", "ipa_prove"))
    return c.finish(rule="as C01, plus IPA proofs for 16 evaluation points x polynomial palette; every serialised proof compared byte for byte with the proof computed by the TLA+ "
                         "reference (textbook, ungrouped, affine arithmetic) and the prover's transcript state with the reference's; the same abstract inputs under different CPU counts "
                         "are all compared with that one reference value; distinct = distinct (kind, zs, polys, label, cpu setting)", min_events=100, assumptions=MP_ASSUME)


@check("C02")
def c02(c):
    quick = c.tier == "quick"
    c.small("MC_Proofs", cfg="MC_Proofs_dis1.cfg" if quick else "MC_Proofs.cfg", timeout=7200)
    c.small("MC_IPA", cfg="MC_IPA.cfg")
    # the same programs also with fewer Ps than CPUs (GOMAXPROCS=3 on all CPUs; thorough: also GOMAXPROCS=1 and 5 CPUs)
    files = mp_runs(c, "mp_perturb", [(vlib.NCPU, ""), (vlib.NCPU, "3")] if quick else [(vlib.NCPU, ""), (vlib.NCPU, "3"), (vlib.NCPU, "1"), (5, "")])
    files += mp_runs(c, "ipa_few", [(vlib.NCPU, "")])
    c.validate("Trace_Proof", files, heap="6g", timeout=7200)
    kinds = set(k.split("/")[1] for k in c.judged if k.startswith("verify/"))
    need = {"none", "y", "z", "C", "D", "L", "R", "a", "swap", "label", "lenLR", "zero"}
    c.guard(need <= kinds, "perturbation kinds without any member: %s" % sorted(need - kinds))
    c.guard(any(k.endswith("/rejected") for k in c.judged) and any(k.endswith("/error") for k in c.judged), "no rejection / no shape error observed")
    c.count_classes(files, proof_class)
    proof_sample(c, files, ("verify", "ipa_verify"))
    return c.finish(rule="honest multiproofs on a set of shapes, each verified honestly and under single-component perturbations enumerated by Gen_Proof (55 kinds: every statement and proof "
                         "component x value classes +G/identity/negation/another honest value/random/r-1/0, representation-only changes, order swap, drop, duplicate, label, splices of a "
                         "second proof, proofs made for another polynomial, proofs FORGED by an adversarial prover that absorbs a false claim and proves as if the verifier ignored it (repeated query, dropped opening, "
                         "dropped index), shape faults |L|,|R|,|Cs|,|ys|,|zs|, zero openings); IPA proofs checked against 7 claimed results and 7 single-component proof changes each; every verdict compared with the reference "
                         "verifier's; distinct = distinct (kind, perturbation, zs, label)", min_events=60, assumptions=MP_ASSUME)


@check("C04")
def c04(c):
    quick = c.tier == "quick"
    c.small("MC_IPA", cfg="MC_IPA.cfg")
    if not quick:
        c.small("MC_IPA", cfg="MC_IPA8.cfg", timeout=3600)
    files = mp_runs(c, "ipa", [(vlib.NCPU, "")])
    files += mp_runs(c, "ipa_few", [(5, "3")] if quick else [(5, "3"), (3, ""), (7, "")])      # configuration built with worker counts that do not divide 256
    c.validate("Trace_Proof", files, heap="6g", timeout=7200)
    need = ["ipa_prove/in", "ipa_prove/out", "ipa_verify/correct/accepted", "ipa_verify/+1/rejected", "ipa_verify/f255/rejected", "ipa_verify/f255/accepted"]
    missing = [k for k in need if c.judged.get(k, 0) == 0]
    c.guard(not missing, "classes without any member: %s" % missing)
    c.count_classes(files, proof_class)
    proof_sample(c, files, ("ipa_prove", "ipa_verify"))
    return c.finish(rule="evaluation points 0,1,127,128,254,255,256,257,300,65536,2^64,(r-1)/2,r-2,r-1,random x polynomial palette x claimed results {correct,+1,-1,0,f[255],f[0],random}; "
                         "p(point) evaluated by the specification in coefficient (Newton) form; distinct = distinct (kind, point, polynomial, result class)", min_events=100, assumptions=MP_ASSUME)


@check("C10")
def c10(c):
    c.small("MC_Codec", cfg="MC_Codec.cfg")
    c.small("MC_Codec", cfg="MC_Codec_legacy.cfg", expect_violation=True)
    files = mp_runs(c, "codec", [(vlib.NCPU, "")])
    c.validate("Trace_Proof", files, heap="4g", timeout=3600)
    need = ["read/mp/accepted", "read/mp/rejected", "read/ipa/accepted", "read/ipa/rejected", "write/error", "write/ok"]
    missing = [k for k in need if c.judged.get(k, 0) == 0]
    c.guard(not missing, "classes without any member: %s" % missing)
    c.count_classes(files, proof_class)
    proof_sample(c, files, ("read", "write"))
    c.count_classes(misc_run(c, "c10"), misc_class)      # MultiProof.Equal / IPAProof.Equal (spec/core/Misc.tla)
    return c.finish(rule="byte-string classes (valid, short, empty, trailing, scalar = r-1/r/r+1/2^256-1, point at each position replaced by x+p / non-subgroup / off-curve / other valid, "
                         "several invalid point fields at once (2, 4, all sixteen, the same twice), bit flip, random) x reader behaviours (whole, 1 byte, 7, 32, 33 bytes at a time, EOF together with the last chunk, injected error at offset k) for MultiProof.Read and "
                         "IPAProof.Read, each accepted stream read a second time into the object that already holds a proof; writer failing at each call; MultiProof.Equal / IPAProof.Equal under single-component changes; distinct = distinct (source, byte class, reader class, data prefix)", min_events=200)


# ------------------------------------------------------------------------------------------ C13

@check("C13")
def c13(c):
    quick = c.tier == "quick"
    c.small("MC_Frames", cfg="MC_Frames.cfg", workers=8)
    c.small("MC_Frames", cfg="MC_Frames_mutant.cfg", workers=8, expect_violation=True)
    # (a) fingerprints of configuration / package state / tables and the probe call along mixed histories
    n = 8 if quick else 120
    progs = c.generate("Gen_Purity", env={"VERIF_DEPTH": 14 if quick else 30}, simulate="num=%d" % n)
    files = c.drive("purity", progs, shards=min(vlib.NCPU, n), timeout=7200)
    c.validate("Trace_Purity", files, c1=True)
    need = ["start", "end", "probe", "tables", "prove", "verify", "commit", "msm", "group", "batch", "codec", "transcript", "poly", "ipa"]
    missing = [k for k in need if c.judged.get(k, 0) == 0]
    c.guard(not missing, "call kinds without any member in the purity histories: %s" % missing)
    c.count_classes(files, lambda e: (e["prog"], e["k"], e["op"]))
    c.sample_events(files, 2, keep=lambda e: e["op"] not in ("start", "end"))
    # (b) frame conditions of every call of the group-family histories (slots outside the frame bit for bit unchanged)
    group_pipeline(c, nprog_quick=120, nprog_thorough=5000)
    # (b') the same slices handed over again after in-place changes, and calls after histories of other calls (MSM, Commit): results must follow the
    #      current contents only
    mprogs = c.generate("Gen_MSM", name="prog-msm")
    msub = os.path.join(c.dir, "prog-msm-hist.jsonl")
    with open(msub, "w") as fh:
        for ln in open(mprogs):
            if json.loads(ln)["kind"] in ("reuse", "history", "mismatchhist"):
                fh.write(ln)
    c.validate("Trace_MSM", c.drive("msm", msub, name="tr-msm-hist", shards=8, timeout=3600), heap="6g", timeout=3600)
    cprogs = c.generate("Gen_Commit", name="prog-commit")
    csub = os.path.join(c.dir, "prog-commit-reuse.jsonl")
    with open(csub, "w") as fh:
        for ln in open(cprogs):
            if json.loads(ln)["kind"] in ("reuse", "crs"):
                fh.write(ln)
    c.validate("Trace_Commit", c.drive("commit", csub, name="tr-commit-reuse", shards=4), heap="6g", timeout=3600)
    # (c) proofs: commitments only re-normalised, polynomials / indices / statements / proofs unchanged
    pf = mp_runs(c, "mp_arrival" if quick else "mp_honest", [(vlib.NCPU, "")])
    c.validate("Trace_Proof", pf, heap="6g", timeout=7200)
    # (d) the exported helpers outside the histories above whose argument-preservation the other families record: fr.BatchInvert (every length 0..5,
    #     every zero pattern), the point decoders' buffers, DivideOnDomain's polynomial - the same events, judged here for C13
    fprogs = c.generate("Gen_Field", name="prog-field", env={"VERIF_PART": "field"})
    fsub = os.path.join(c.dir, "prog-field-batch.jsonl")
    with open(fsub, "w") as fh:
        for ln in open(fprogs):
            if json.loads(ln).get("op") == "batchinv":
                fh.write(ln)
    c.validate("Trace_Field", c.drive("field", fsub, name="tr-field-batch", shards=4), heap="3g", timeout=3600)
    c.validate("Trace_Decode", c.drive("decode", c.generate("Gen_Decode", name="prog-decode"), name="tr-decode", shards=vlib.NCPU), timeout=3600)
    pprogs = c.generate("Gen_Poly", name="prog-poly")
    psub = os.path.join(c.dir, "prog-poly-divide.jsonl")
    with open(psub, "w") as fh:
        for ln in open(pprogs):
            if json.loads(ln).get("kind") == "divide":
                fh.write(ln)
    c.validate("Trace_Poly", c.drive("poly", psub, name="tr-poly-divide", shards=8), heap="4g", timeout=3600)
    missing = [k for k in ("batchinv", "divide") if c.judged.get(k, 0) == 0]
    c.guard(not missing, "helper kinds without any judged call: %s" % missing)
    return c.finish(rule="(a) mixed API histories from TLC simulation of Gen_Purity on one shared configuration: SHA-256 fingerprints of SRS/Q/weight tables and of package-level values "
                         "(generator, identity, curve parameters, all Fiat-Shamir labels) after EVERY call, of the precomputed MSM tables at start/end/TLC-chosen positions, caller inputs compared "
                         "with deep copies, and a fixed probe call replayed at TLC-chosen positions; (b) the frame condition of every call of group-family histories (every pool slot outside the "
                         "call's frame bit for bit unchanged, scalar/slice/buffer arguments unchanged); (c) proofs: commitments only re-normalised, everything else unchanged; "
                         "(d) fr.BatchInvert for every length 0..5 x zero pattern, the point decoders' input buffers, DivideOnDomain's polynomial: arguments unchanged; "
                         "distinct = distinct (history, position, call kind)", min_events=200,
                    assumptions=["fingerprints are computed by the driver (a sensor) through the read-only hooks; the specification compares them",
                                 "independence of history is established through the probe call and through every reply of every family being judged as a function of its arguments only"])


# ------------------------------------------------------------------------------------------ C12

@check("C12")
def c12(c):
    quick = c.tier == "quick"
    c.small("MC_Conc", cfg="MC_Conc.cfg" if quick else "MC_Conc3.cfg")
    c.small("MC_Conc", cfg="MC_Conc_dirty.cfg", expect_violation=True)
    c.small("MC_MsmChan", cfg="MC_MsmChan.cfg", workers=4)
    c.small("MC_MsmChan", cfg="MC_MsmChan_overflow.cfg", workers=4, expect_violation=True)
    c.small("MC_Execute", cfg="MC_Execute.cfg", workers=4)
    progs = c.generate("Gen_Conc")
    n = sum(1 for _ in open(progs))
    exe = vlib.build_harness(race=True)
    racedir = os.path.join(c.dir, "race")
    os.makedirs(racedir, exist_ok=True)
    # one driver process per start-up GOMAXPROCS value (0 = inherited): programs with envgmp = g run in a process started with GOMAXPROCS=g;
    # the sustained-overlap programs (reps > 1) and the first-use programs (fresh configuration per program) run on the plain build: several times more calls per second than under the race detector,
    # which is what makes an overlap inside a short critical window likely
    groups = {}
    for ln in open(progs):
        pr = json.loads(ln)
        groups.setdefault((pr.get("envgmp", 0), pr.get("reps", 1) > 1 or pr.get("fresh", False)), []).append(ln)
    files = []
    plain = vlib.build_harness()
    for (g, stress), lines in sorted(groups.items()):
        tag = "env%d%s" % (g, "s" if stress else "")
        pf = os.path.join(c.dir, "programs.conc.%s.ndjson" % tag)
        open(pf, "w").write("".join(lines))
        env = {} if stress else {"GORACE": "log_path=%s/report halt_on_error=0 exitcode=0 history_size=3" % racedir}
        if g:
            env["GOMAXPROCS"] = g
        files += c.drive("conc", pf, name="tr." + tag, shards=len(lines), binary=(plain if stress else exe), timeout=7200, env=env)
    # sensor: race detector reports become `race` events of an extra trace
    reports = []
    for f in sorted(os.listdir(racedir)):
        txt = open(os.path.join(racedir, f), errors="replace").read()
        for chunk in txt.split("WARNING: DATA RACE")[1:]:
            lines = [ln.strip() for ln in chunk.strip().splitlines() if ln.strip()]
            frames = [ln for ln in lines if "go-ipa" in ln or "gnark" in ln][:6]
            reports.append(" | ".join(lines[:2] + frames)[:900])
    rf = os.path.join(c.dir, "tr.race.ndjson")
    with open(rf, "w") as fh:
        fh.write(json.dumps({"ev": "fp", "when": "none", "cfg": [], "pkg": []}) + "\n")
        for r in reports[:50]:
            fh.write(json.dumps({"ev": "race", "text": r}) + "\n")
    files.append(rf)
    c.extra["race_detector_reports"] = len(reports)
    c.validate("Trace_Conc", files, c1=True)
    need = ["prove", "commit", "msm", "codec", "batch", "transcript", "poly", "ipa", "fp"]
    missing = [k for k in need if c.judged.get(k, 0) == 0]
    c.guard(not missing, "call kinds without any member: %s" % missing)
    c.count_classes(files, lambda e: (e.get("prog"), e.get("g"), e.get("i"), e.get("op"), e.get("k"), e.get("gomaxprocs"), e.get("envgmp")) if e["ev"] == "conc" else None)
    c.sample_events(files[:2], 2, keep=lambda e: e["ev"] == "conc")
    return c.finish(rule="K in {2,8} (thorough: 2,4,8,32) goroutines x runtime GOMAXPROCS {1,4,16} (thorough: 1,2,4,16), K = 64 (thorough: 64,128) callers on MSM-bound mixes, processes started with GOMAXPROCS=1 (thorough: 1,2,4) x call mixes (prove+verify, commit, MSM over the shared SRS, encode/decode, batch helpers incl. long pointer lists naming 2-4 elements, "
                         "transcripts, polynomial routines, IPA); sustained-overlap programs (16 goroutines repeating calls of one kind 200 [thorough 1500] times, on the plain build); "
                         "every call executed alone and concurrently, replies compared; mixed programs on the -race build; progress watchdog; distinct = distinct (program, goroutine, position)",
                    min_events=100,
                    assumptions=["freedom from instruction-level data races is OBSERVED by the Go race detector on the schedules that occurred, not decided by the model; "
                                 "TLC decides reply independence and deadlock freedom of the modelled synchronisation (MC_Conc, MC_MsmChan, MC_Execute, MC_Proofs arrival orders)"])
