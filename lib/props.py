"""Per-property pipelines.  Each function takes a vlib.Check and returns the exit code."""
import json, os
import vlib
from vlib import Machinery, log

CHECKS = {}

def check(pid):
    def deco(f):
        CHECKS[pid] = f
        return f
    return deco


def selftest(seed):
    vlib.ensure_classes()
    real = os.path.join(vlib.SPEC, "real")
    lib = [os.path.join(vlib.SPEC, "core")]
    rc = 0
    for mod in ("SelfTestBigNat", "KAT"):
        r = vlib.tlc(mod, real, cfg=mod + ".cfg", env={"VERIF_SEED": seed}, workers=1, timeout=1800, lib=lib, heap="4g")
        log("selftest %-16s %s (%.0fs)" % (mod, "ok" if r["ok"] else "FAILED", r["wall"]))
        if not r["ok"] or (mod == "KAT" and "FALSE" in "".join(l for l in r["out"].splitlines() if l.startswith("<<"))):
            log(vlib.clean_out(r["out"])[-3000:])
            rc = 2
    return rc


def replay(prop, path, seed):
    rp = json.load(open(path))
    log("replay of %s: deviation %s" % (path, json.dumps(rp.get("deviation"))))
    c = vlib.Check(prop, rp.get("tier", "quick"), rp.get("seed", seed))
    return CHECKS[prop](c)


# ------------------------------------------------------------------------------------------ C15 / C16

def field_class(e):
    if e.get("ev") == "fieldop":
        return ("f", e["op"], tuple(e.get("x") or ())[:3], tuple(e.get("y") or ())[:3])
    if e.get("ev") == "codec":
        return ("c", e["fn"], e.get("val"), len(e.get("buf") or ()))
    return None


@check("C15")
def c15(c):
    c.small("MC_Mont", cfg="MC_Mont.cfg")
    progs = c.generate("Gen_Field", env={"VERIF_PART": "field"})
    files = c.drive("field", progs)
    c.validate("Trace_Field", files)
    c.count_classes(files, field_class)
    c.sample_events(files, 3)
    return c.finish(rule="one event per (operation, operand pair); operands: all 7^4 limb-class words of the raw Montgomery representation "
                         "(per 64-bit limb one of 0,1,2^63,2^64-1,q_i-1,q_i,q_i+1) against diagonal/pivots/specials, 28 named boundary values, seeded random; "
                         "every event carries the outputs of each code path (asm with ADX, asm without ADX, portable generic) and each receiver/operand aliasing; "
                         "distinct = distinct (op, x, y) triples", min_events=1000)


@check("C16")
def c16(c):
    c.small("MC_Codec8", cfg="MC_Codec8.cfg")
    progs = c.generate("Gen_Field", env={"VERIF_PART": "codec"})
    files = c.drive("field", progs)
    c.validate("Trace_Field", files)
    c.count_classes(files, field_class)
    c.sample_events(files, 3)
    return c.finish(rule="one event per (decoder/encoder, length 0..64, value class); value classes 0,1,255,256,r-1,r,r+1,2r,p-1,p,2^255,2^256-1,all-ones,msb-only,lsb-only,random; "
                         "each decode is done twice on the same buffer and the buffer is compared before/after; distinct = distinct (function, value class, length)", min_events=100)
