#!/usr/bin/env python3
"""Writes the detection matrix (DESIGN.md section 10.6) from seeded/*/meta.json and out/mutants.log."""
import json, os, re, glob
V = os.path.dirname(os.path.dirname(os.path.abspath(__file__)))
rows = []
for d in sorted(glob.glob(os.path.join(V, "seeded", "*", "meta.json"))):
    m = json.load(open(d))
    rows.append((m["breaks_property"], m["id"], m["summary"], m["needs"], m["status"], m["checks_run"]))
out = ["### 10.6 Detection matrix", "",
       "**Changes written by independent sub-agents** (each given only the text of one property and a scratch worktree; confirmed by",
       "`lib/confirm_seed.sh`: compiles, the repository's suite passes with the change, the sub-agent's demonstration fails with it and",
       "passes without it; stored under `seeded/<id>/` with `patch.diff`, the demonstration test and `meta.json`):", "",
       "| property | seeded change | what it needs to manifest | outcome of `./check <property> quick` |", "|---|---|---|---|"]
for p, i, s, n, st, ran in sorted(rows):
    out.append("| %s | `%s`: %s | %s | %s |" % (p, i, s.replace("|", "/"), n.replace("|", "/"), ran.replace("|", "/")))
out += ["", "**Mutants named in the property texts and reverts of the four repairs** (`mutants/*.patch`, applied to a scratch worktree by",
        "`lib/mutant_run.sh`, which first runs the repository's suite on the mutant and then the quick check of the targeted property):", "",
        "| mutant | suite on the mutant | quick check | first deviation reported |", "|---|---|---|---|"]
last = {}
lg = os.path.join(V, "out", "mutants.log")
if os.path.exists(lg):
    for ln in open(lg):
        m = re.match(r"\S+ (\S+) prop=(\S+) suite_exit=(\S+) check_exit=(\d+) violations=(\d+) :: (.*)", ln)
        if m:
            last[m.group(1)] = m.groups()
for name in sorted(last):
    _, prop, suite, rc, viol, first = last[name]
    first = re.sub(r"^DEVIATION line=\d+ ", "", first)[:150].replace("|", "/")
    out.append("| `%s` (%s) | %s | exit %s, %s violation lines | %s |" % (name, prop, "passes" if suite == "0" else "exit " + suite, rc, viol, first))
open(os.path.join(V, "out", "matrix.md"), "w").write("\n".join(out) + "\n")
print("\n".join(out[:12]))
