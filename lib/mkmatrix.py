#!/usr/bin/env python3
"""Rebuilds DESIGN.md section 10.6 (between the MATRIX markers) from seeded/*/meta.json and matrix/last_run.log (lib/matrix_run.sh)."""
import json, os, re, glob
V = os.path.dirname(os.path.dirname(os.path.abspath(__file__)))
last = {}
lg = os.path.join(V, "matrix", "last_run.log")
if os.path.exists(lg):
    for ln in open(lg):
        m = re.match(r"(\S+) (\S+) prop=(\S+) check_exit=(\d+) violations=(\d+) :: (.*)", ln)
        if m:
            last[m.group(2)] = m.groups()
def cur(name):
    if name not in last:
        return "not re-run"
    when, _, prop, rc, viol, first = last[name]
    return "exit %s, %s VIOLATION lines (%s)" % (rc, viol, when[5:16].replace("T", " "))
rows = []
for d in sorted(glob.glob(os.path.join(V, "seeded", "*", "meta.json"))):
    m = json.load(open(d))
    rows.append((m["breaks_property"], m["id"], m["summary"], m["needs"], m["status"], m["checks_run"]))
n_first = sum(1 for r in rows if r[4] == "detected")
out = ["### 10.6 Detection matrix", "",
       "**Changes written by independent sub-agents** (%d; each sub-agent was given only the text of one property, the list of mechanisms already used for it, and a scratch" % len(rows),
       "worktree; each change was confirmed by `lib/confirm_seed.sh`: compiles, the repository's suite passes with the change, the sub-agent's demonstration fails",
       "with it and passes without it; stored under `seeded/<id>/` with `patch.diff`, the demonstration test and `meta.json`). %d were caught by the quick check as it" % n_first,
       "stood when the change arrived, %d only after the strengthening described in 10.5. The last column is the latest full re-run of every stored change against" % (len(rows) - n_first),
       "the committed checks (`lib/matrix_run.sh`, `matrix/last_run.log`).", "",
       "| property | seeded change | what it needs to manifest | outcome when it arrived | latest re-run of `./check <property> quick` |", "|---|---|---|---|---|"]
for p, i, s, n, st, ran in sorted(rows):
    out.append("| %s | `%s`: %s | %s | %s | %s |" % (p, i, s.replace("|", "/"), str(n).replace("|", "/"), ran.replace("|", "/"), cur(i)))
out += ["", "**Mutants named in the property texts and reverts of the four repairs** (`mutants/*.patch`; the repository's suite passes on every one of them, checked by",
        "`lib/mutant_run.sh` when they were written):", "",
        "| mutant | latest re-run of the quick check | first deviation reported |", "|---|---|---|"]
for f in sorted(glob.glob(os.path.join(V, "mutants", "*.patch"))):
    name = os.path.basename(f)[:-6]
    first = re.sub(r"^DEVIATION line=\d+ ", "", last[name][5])[:170].replace("|", "/") if name in last else ""
    out.append("| `%s` | %s | %s |" % (name, cur(name), first))
text = "\n".join(out) + "\n"
dp = os.path.join(V, "DESIGN.md")
d = open(dp).read()
B, E = "<!-- MATRIX-BEGIN -->\n", "<!-- MATRIX-END -->\n"
if B in d:
    d = d[:d.index(B) + len(B)] + text + d[d.index(E):]
else:
    i = d.index("### 10.6 Detection matrix")
    d = d[:i] + B + text + E
open(dp, "w").write(d)
print("matrix: %d seeds (%d first-time), %d mutants, %d re-run lines" % (len(rows), n_first, len(glob.glob(os.path.join(V, "mutants", "*.patch"))), len(last)))
