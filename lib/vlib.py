#!/usr/bin/env python3
"""Runner for the go-ipa verification machinery (stdlib only).

Pipeline of one check:  small-world TLC runs  ->  TLC program generator  ->  Go driver on /repo's
working tree  ->  TLC trace validation (real-world instance)  ->  verdict, evidence, exit code.
Exit codes: 0 property held on everything explored; 1 VIOLATION (real output contradicts the
specification); 2 machinery problem (never a verdict)."""
import json, os, re, shutil, subprocess, sys, time, concurrent.futures as cf, hashlib

VERIF = os.path.dirname(os.path.dirname(os.path.abspath(__file__)))
REPO = os.environ.get("VERIF_REPO", "/repo")
SPEC = os.path.join(VERIF, "spec")
OUT = os.path.join(VERIF, "out")
JAR = "/opt/veriftools/tla/tla2tools.jar:/opt/veriftools/tla/CommunityModules-deps.jar"
NCPU = os.cpu_count() or 4
GOENV = dict(GOFLAGS="-mod=mod", GOPROXY="off", GOSUMDB="off", GOTOOLCHAIN="local")


REPLAY_MODE = False


class Machinery(Exception):
    """A problem of the machinery itself (exit 2)."""


def log(*a):
    print(*a, flush=True)


def sh(cmd, cwd=None, env=None, timeout=None, check=True):
    e = dict(os.environ)
    if env:
        e.update(env)
    try:
        p = subprocess.run(cmd, cwd=cwd, env=e, stdout=subprocess.PIPE, stderr=subprocess.STDOUT, timeout=timeout, text=True)
    except subprocess.TimeoutExpired as ex:
        raise Machinery("timeout after %ss: %s" % (timeout, " ".join(cmd[:6])))
    if check and p.returncode != 0:
        raise Machinery("command failed (%d): %s\n%s" % (p.returncode, " ".join(cmd[:8]), p.stdout[-3000:]))
    return p


# ---------------------------------------------------------------------------------------- build

def ensure_classes():
    """Java accelerators (module overrides) next to the real-world modules."""
    real = os.path.join(SPEC, "real")
    srcs = sorted(f for f in os.listdir(os.path.join(SPEC, "java")) if f.endswith(".java"))
    need = False
    for s in srcs:
        c = os.path.join(real, s[:-5] + ".class")
        if not os.path.exists(c) or os.path.getmtime(c) < os.path.getmtime(os.path.join(SPEC, "java", s)):
            need = True
    if need:
        order = ["BigNat.java"] + [s for s in srcs if s != "BigNat.java"]
        sh(["javac", "-cp", JAR.split(":")[0] + ":" + real, "-d", real] + [os.path.join(SPEC, "java", s) for s in order], timeout=300)


def build_harness(race=False, tags="verif"):
    """Builds the driver against /repo's CURRENT working tree (replace directive), hooks on."""
    os.makedirs(os.path.join(OUT, "bin"), exist_ok=True)
    name = "vdrive" + ("-race" if race else "") + ("" if tags == "verif" else "-" + tags.replace(",", "_"))
    dst = os.path.join(OUT, "bin", name)
    hdir = os.path.join(VERIF, "harness")
    if REPO != "/repo":
        # development aid: check a scratch copy / worktree of the repository (VERIF_REPO=<dir>) without touching /repo
        tag = hashlib.sha1(REPO.encode()).hexdigest()[:10]
        alt = os.path.join(OUT, "harness-" + tag)
        shutil.rmtree(alt, ignore_errors=True)
        shutil.copytree(hdir, alt, ignore=shutil.ignore_patterns("vdrive*"))
        gm = open(os.path.join(alt, "go.mod")).read().replace("=> /repo", "=> " + REPO)
        open(os.path.join(alt, "go.mod"), "w").write(gm)
        hdir = alt
        dst = os.path.join(OUT, "bin", name + "-" + tag)
    gosum = os.path.join(hdir, "go.sum")
    cmd = ["go", "build", "-tags", tags, "-o", dst]
    if race:
        cmd.insert(2, "-race")
    p = sh(cmd + ["."], cwd=hdir, env=GOENV, timeout=900, check=False)
    if p.returncode != 0:
        raise Machinery("harness does not build against /repo (hooks missing or API changed):\n" + p.stdout[-3000:])
    return dst


# ---------------------------------------------------------------------------------------- TLC

_STAT = re.compile(r"(\d+) states generated, (\d+) distinct states found")


def tlc(module, cwd, cfg=None, env=None, workers=1, timeout=900, lib=None, extra=None, heap="3g", metaroot=None, simulate=None, c1=False):
    """Runs TLC; returns dict(rc, out, generated, distinct, ok, violated)."""
    metaroot = metaroot or os.path.join(OUT, "tmp")
    os.makedirs(metaroot, exist_ok=True)
    md = os.path.join(metaroot, "md-%s-%d-%d" % (module, os.getpid(), int(time.time() * 1e6) % 10**9))
    # many single-worker JVMs run side by side (trace validation): the serial collector avoids the contention of
    # 16 x parallel GC threads (measured here: 3x faster); multi-worker model checking keeps the parallel collector
    if workers == 1:
        jopts = "-Xss128m -Xmx%s -XX:+UseSerialGC" % heap
    else:
        jopts = "-Xss256m -Xmx%s -XX:+UseParallelGC -XX:ParallelGCThreads=%d" % (heap, min(8, workers))
    if c1:
        jopts += " -XX:TieredStopAtLevel=1"      # integer-only trace specs: skip the C2 compiler
    if lib:
        jopts += " -DTLA-Library=" + ":".join(lib)
    tmpd = md + "-tmp"                            # TLC and SANY litter java.io.tmpdir (SANY*, tlc-*): keep that inside the run's own directory
    os.makedirs(tmpd, exist_ok=True)
    jopts += " -Djava.io.tmpdir=" + tmpd
    e = {"JAVA_TOOL_OPTIONS": jopts}
    if env:
        e.update({k: str(v) for k, v in env.items()})
    cmd = ["java", "-cp", JAR, "tlc2.TLC", "-workers", str(workers), "-metadir", md, "-nowarning"]
    if cfg:
        cmd += ["-config", cfg]
    if simulate:
        cmd += ["-simulate", simulate]
    if extra:
        cmd += extra
    cmd.append(module)
    t0 = time.time()
    try:
        p = sh(cmd, cwd=cwd, env=e, timeout=timeout, check=False)
    finally:
        shutil.rmtree(md, ignore_errors=True)
        shutil.rmtree(tmpd, ignore_errors=True)
    out = p.stdout
    gen = dist = 0
    for m in _STAT.finditer(out):
        gen, dist = int(m.group(1)), int(m.group(2))
    violated = "is violated" in out or "was violated" in out or ("Assumption" in out and "is false" in out)
    ok = (p.returncode == 0) and "Error:" not in out
    for f in os.listdir(cwd):
        if "_TTrace_" in f:
            try:
                os.remove(os.path.join(cwd, f))
            except OSError:
                pass
    return dict(rc=p.returncode, out=out, generated=gen, distinct=dist, ok=ok, violated=violated, wall=time.time() - t0, module=module)


def tlc_many(jobs, maxpar=None):
    """jobs: list of kwargs for tlc(); runs them in parallel."""
    maxpar = maxpar or NCPU
    with cf.ThreadPoolExecutor(max_workers=maxpar) as ex:
        return list(ex.map(lambda kw: tlc(**kw), jobs))


def clean_out(text):
    return "\n".join(l for l in text.splitlines() if not re.match(r"^(Loading|Parsing|Semantic|Linting|Picked up|Warning: Failed to match)", l))


# ---------------------------------------------------------------------------------------- findings

def load_known():
    p = os.path.join(VERIF, "known_findings.json")
    if not os.path.exists(p):
        return []
    return json.load(open(p)).get("findings", [])


def match_known(prop, sig, known):
    for k in known:
        if k.get("status") == "open" and k.get("property") == prop and k.get("signature") == sig:
            return k
    return None


# ---------------------------------------------------------------------------------------- check driver

class Check:
    def __init__(self, prop, tier, seed):
        self.prop, self.tier, self.seed = prop, tier, seed
        self.t0 = time.time()
        self.run = "%s-%s-s%d-%d" % (prop, tier, seed, os.getpid())
        self.dir = os.path.join(OUT, prop, self.run)
        os.makedirs(self.dir, exist_ok=True)
        self.states = self.transitions = 0          # small-world model checking
        self.tstates = 0                            # trace validation states
        self.traces = self.events = 0
        self.devs = []                              # deviations of THIS property: dict(line, prop, what, sig, file)
        self.foreign = []
        self.judged = {}
        self.samples = []
        self.sw_runs = []
        self.notes = []
        self.classes = set()
        self.env = {"VERIF_SEED": seed, "VERIF_TIER": tier}
        self.exhaustive = False
        self.extra = {}
        self.guards = []                            # coverage-guard failures, raised only if no violation was found
        self.origin = {}                            # trace file -> (family, programs file, driver args, env, taskset)
        self.validated = {}                         # trace file -> trace module

    # -- small world ----------------------------------------------------------------------
    def small(self, module, cfg=None, workers=None, timeout=900, env=None, subdir="small", heap="8g", expect_violation=False):
        cwd = os.path.join(SPEC, subdir)
        e = dict(self.env)
        if env:
            e.update(env)
        r = tlc(module, cwd, cfg=cfg or module + ".cfg", env=e, workers=workers or NCPU, timeout=timeout, lib=[os.path.join(SPEC, "core"), os.path.join(SPEC, "small")], heap=heap, metaroot=self.dir)
        self.sw_runs.append(dict(module=module, cfg=cfg or module + ".cfg", generated=r["generated"], distinct=r["distinct"], wall=round(r["wall"], 1), ok=r["ok"]))
        if expect_violation:
            if not r["violated"]:
                raise Machinery("small-world mutant model %s/%s was expected to violate its invariant but did not" % (module, cfg))
            return r
        if not r["ok"]:
            raise Machinery("small-world model checking failed for %s (%s): the specification itself is broken or TLC failed\n%s" % (module, cfg, clean_out(r["out"])[-4000:]))
        if r["distinct"] == 0:
            raise Machinery("small-world run %s explored no state" % module)
        self.states += r["distinct"]
        self.transitions += r["generated"]
        log("  small-world %-28s %9d states %10d transitions %6.1fs" % (module + (":" + cfg if cfg else ""), r["distinct"], r["generated"], r["wall"]))
        return r

    # -- symbolic proof of an inductive invariant (Apalache): no bound on the data -----------
    def apalache(self, module, obligations, subdir="proof", timeout=900):
        """obligations: list of (name, [apalache options], expect_error).  The module is copied to the run directory first (the tool litters)."""
        src = os.path.join(SPEC, subdir, module + ".tla")
        work = os.path.join(self.dir, "apalache-" + module)
        os.makedirs(work, exist_ok=True)
        shutil.copy(src, work)
        done = []
        for (name, opts, expect_error) in obligations:
            t0 = time.time()
            p = sh(["apalache-mc", "check", "--out-dir=" + os.path.join(work, "out")] + opts + [module + ".tla"], cwd=work, timeout=timeout, check=False,
                   env=dict(os.environ, JAVA_TOOL_OPTIONS=""))
            m = re.search(r"The outcome is: (\w+)", p.stdout)
            outcome = m.group(1) if m else "none"
            if outcome not in ("NoError", "Error"):
                raise Machinery("apalache gave no verdict on %s/%s (rc=%d):\n%s" % (module, name, p.returncode, p.stdout[-3000:]))
            if expect_error and outcome != "Error":
                raise Machinery("apalache was expected to refute %s/%s (mutant design) but did not" % (module, name))
            if not expect_error and outcome != "NoError":
                raise Machinery("apalache refutes proof obligation %s/%s: the proof (not the code) is broken\n%s" % (module, name, p.stdout[-3000:]))
            done.append(dict(obligation=name, options=" ".join(opts), outcome=outcome, expected=("Error" if expect_error else "NoError"), wall=round(time.time() - t0, 1)))
            log("  apalache    %-28s %-34s %-8s %5.1fs" % (module, name, outcome, time.time() - t0))
        shutil.rmtree(work, ignore_errors=True)
        self.extra.setdefault("symbolic_proofs", []).append(dict(module=module, tool="apalache-mc 0.58.0", obligations=done))
        return done

    # -- generator ------------------------------------------------------------------------
    def generate(self, module, name="prog", env=None, timeout=600, simulate=None, workers=1, extra=None):
        out = os.path.join(self.dir, name + ".jsonl")
        if os.path.exists(out):
            os.remove(out)
        e = dict(self.env)
        e["VERIF_OUT"] = out
        if env:
            e.update(env)
        r = tlc(module, os.path.join(SPEC, "gen"), cfg=module + ".cfg", env=e, workers=workers, timeout=timeout, lib=[os.path.join(SPEC, "core"), os.path.join(SPEC, "small")], metaroot=self.dir, simulate=simulate,
                extra=(extra or []) + (["-seed", str(self.seed), "-depth", "200"] if simulate else []))
        if not r["ok"] and not (simulate and os.path.exists(out)):
            raise Machinery("program generator %s failed\n%s" % (module, clean_out(r["out"])[-3000:]))
        if not os.path.exists(out) or os.path.getsize(out) == 0:
            raise Machinery("program generator %s produced no program" % module)
        lines = []
        for ln in open(out):
            ln = ln.strip()
            if not ln:
                continue
            if ln.startswith('"'):
                ln = json.loads(ln)
            lines.append(ln)
        with open(out, "w") as fh:
            fh.write("\n".join(lines) + "\n")
        n = len(lines)
        log("  generator   %-28s %9d programs %6.1fs" % (module, n, r["wall"]))
        self.extra.setdefault("programs_generated", 0)
        self.extra["programs_generated"] += n
        return out

    # -- driver ---------------------------------------------------------------------------
    def drive(self, fam, programs, name="tr", shards=None, args=None, race=False, timeout=1800, env=None, taskset=None, binary=None):
        exe = binary or build_harness(race=race)
        if shards is None:
            nprog = sum(1 for _ in open(programs))
            shards = max(1, min(NCPU, nprog // 150))
        prefix = os.path.join(self.dir, name)
        cmd = [exe, "-fam", fam, "-in", programs, "-out", prefix, "-shards", str(shards or NCPU), "-seed", str(self.seed)] + (args or [])
        if taskset:
            cmd = ["taskset", "-c", taskset] + cmd
        e = dict(GOENV)
        if env:
            e.update({k: str(v) for k, v in env.items()})
        t0 = time.time()
        p = sh(cmd, env=e, timeout=timeout, check=False)
        crashfile = None
        if p.returncode != 0:
            if not re.search(r"^(panic:|fatal error:|goroutine \d+ \[)", p.stdout, re.M):
                raise Machinery("driver failed for family %s (rc=%d):\n%s" % (fam, p.returncode, p.stdout[-4000:]))
            # The driver process died inside a program (library panic in a goroutine, runtime deadlock detection, ...).
            # Isolate: re-run serially with a marker; a program that crashes TWICE becomes a `crash` event, the rest is run.
            log("  driver      %-28s crashed; isolating the program" % fam)
            for f in [prefix + ".%d.ndjson" % i for i in range(shards or NCPU)]:
                if os.path.exists(f):
                    os.remove(f)
            marker = prefix + ".marker"
            crashes, start, part = [], 0, 0
            nprog = sum(1 for _ in open(programs))
            while start < nprog and len(crashes) < 8:
                sp = "%s.s%d" % (prefix, part)
                q = sh(cmd[:cmd.index("-out")] + ["-out", sp, "-shards", "1", "-seed", str(self.seed), "-marker", marker, "-from", str(start)] + (args or []), env=e, timeout=timeout, check=False)
                part += 1
                if q.returncode == 0:
                    break
                k = int(open(marker).read().strip())
                # drop a possibly torn last line of the partial trace
                tf = sp + ".0.ndjson"
                if os.path.exists(tf):
                    good = []
                    for ln in open(tf, errors="replace"):
                        try:
                            ev = json.loads(ln)
                        except Exception:
                            break
                        if ev.get("prog", ev.get("k")) == k and ev.get("ev") not in ("config",):
                            continue            # events of the crashing program itself are discarded
                        good.append(ln)
                    open(tf, "w").write("".join(good))
                q2 = sh(cmd[:cmd.index("-out")] + ["-out", sp + "x", "-shards", "1", "-seed", str(self.seed), "-only", str(k)] + (args or []), env=e, timeout=timeout, check=False)
                for g in (sp + "x.0.ndjson",):
                    if os.path.exists(g):
                        os.remove(g)
                if q2.returncode == 0:
                    raise Machinery("driver crashed on program %d of family %s but not when the program was re-run alone (not reproducible):\n%s" % (k, fam, q.stdout[-3000:]))
                m = re.search(r"^(panic:.*|fatal error:.*)$", q2.stdout, re.M)
                frames = [ln.strip() for ln in q2.stdout.splitlines() if "go-ipa" in ln and ".go:" in ln][:6]
                prog_line = ""
                with open(programs) as fh:
                    for j, ln in enumerate(fh):
                        if j == k:
                            prog_line = ln.strip()
                crashes.append(dict(ev="crash", fam=fam, prog=k, kind=(m.group(1)[:60] if m else "crash"), text=((m.group(1) if m else "crash") + " | " + " | ".join(frames))[:900], program=prog_line[:4000]))
                start = k + 1
                if "did not return" in crashes[-1]["text"]:
                    break                           # a call that blocks: one reproduced stall is the finding; every further one costs minutes
            crashfile = prefix + ".crash.ndjson"
            with open(crashfile, "w") as fh:
                for cr in crashes:
                    fh.write(json.dumps(cr) + "\n")
            files = sorted(f for f in ("%s.s%d.0.ndjson" % (prefix, i) for i in range(part)) if os.path.exists(f) and os.path.getsize(f) > 0)
            for f in files:
                self.origin[f] = dict(fam=fam, programs=programs, args=args or [], env=env or {}, taskset=taskset, race=race)
            self.crashfiles = getattr(self, "crashfiles", []) + [crashfile]
            self.origin[crashfile] = dict(fam=fam, programs=programs, args=args or [], env=env or {}, taskset=taskset, race=race)
            log("  driver      %-28s %d crash(es) isolated, %d partial traces" % (fam, len(crashes), len(files)))
            return files
        files = sorted(f for f in (prefix + ".%d.ndjson" % i for i in range(shards or NCPU)) if os.path.exists(f) and os.path.getsize(f) > 0)
        if not files:
            raise Machinery("driver produced no trace for family %s" % fam)
        log("  driver      %-28s %s %6.1fs" % (fam, p.stdout.strip().splitlines()[-1] if p.stdout.strip() else "", time.time() - t0))
        for f in files:
            self.origin[f] = dict(fam=fam, programs=programs, args=args or [], env=env or {}, taskset=taskset, race=race)
        return files

    # -- trace validation -----------------------------------------------------------------
    def validate(self, module, files, cfg=None, timeout=1800, env=None, heap="3g", c1=False):
        cwd = os.path.join(SPEC, "real")
        ensure_classes()
        # keep the sum of the heaps of the side-by-side JVMs within the machine (all of them may fill their heap at once)
        try:
            total_gb = int(open("/proc/meminfo").readline().split()[1]) // (1024 * 1024)
        except Exception:
            total_gb = 32
        par = max(1, min(len(files), NCPU))
        cap = max(1, int(total_gb * 0.7 / par))
        want = int(float(heap.rstrip("g")))
        heap = "%dg" % max(1, min(want, cap))
        jobs = []
        for f in files:
            e = dict(self.env)
            e.update({"VERIF_TRACE": f, "VERIF_VERDICT": f + ".verdict.json"})
            if env:
                e.update(env)
            jobs.append(dict(module=module, cwd=cwd, cfg=cfg or module + ".cfg", env=e, workers=1, timeout=timeout, lib=[os.path.join(SPEC, "core")], heap=heap, metaroot=self.dir,
                             c1=c1))
        for f in files:
            self.validated[f] = module
        t0 = time.time()
        res = tlc_many(jobs)
        nev = 0
        for f, r in zip(files, res):
            vf = f + ".verdict.json"
            if not r["ok"] or not os.path.exists(vf):
                raise Machinery("trace validation by %s did not complete on %s\n%s" % (module, f, clean_out(r["out"])[-4000:]))
            v = json.load(open(vf))
            if v["events"] != v["total"]:
                raise Machinery("trace %s not fully consumed (%d of %d)" % (f, v["events"], v["total"]))
            self.traces += 1
            self.events += v["events"]
            nev += v["events"]
            self.tstates += r["distinct"]
            for k, n in (v.get("judged") or {}).items():
                self.judged[k] = self.judged.get(k, 0) + n
            for b in v.get("bad") or []:
                b["file"] = f
                (self.devs if b["prop"] == self.prop else self.foreign).append(b)
            for k, n in (v.get("sigcount") or {}).items():
                pass
        log("  validation  %-28s %9d events in %d traces %6.1fs" % (module, nev, len(files), time.time() - t0))

    # -- samples / classes ----------------------------------------------------------------
    def sample_events(self, files, n=3, keep=None):
        for f in files[:n]:
            with open(f) as fh:
                for line in fh:
                    e = json.loads(line)
                    if keep and not keep(e):
                        continue
                    s = json.dumps(e)
                    self.samples.append(e if len(s) < 1500 else json.loads(s[:0] or "null") or {"event_prefix": s[:1500]})
                    break

    def count_classes(self, files, fn):
        for f in files:
            with open(f) as fh:
                for line in fh:
                    c = fn(json.loads(line))
                    if c is not None:
                        self.classes.add(c)

    def guard(self, ok, msg):
        """coverage guard: a failure is a machinery problem (exit 2) - unless the run found violations, which are
        reported first (a defect may well be the reason why an expected class of outcomes is empty)"""
        if not ok:
            self.guards.append(msg)

    # -- verdict --------------------------------------------------------------------------
    def finish(self, rule, trusted=None, assumptions=None, level="model_checking", min_events=1, cleanup=True):
        cfs = [f for f in getattr(self, "crashfiles", []) if os.path.getsize(f) > 0]
        if cfs:
            self.crashfiles = []
            self.validate("Trace_Crash", cfs, env={"VERIF_PROP": self.prop}, c1=True)
        known = load_known()
        viol, kn = [], {}
        for b in self.devs:
            k = match_known(self.prop, b.get("sig"), known)
            if k:
                kn.setdefault(json.dumps(k["signature"]), (k, 0))
                kn[json.dumps(k["signature"])] = (k, kn[json.dumps(k["signature"])][1] + 1)
            else:
                viol.append(b)
        if self.events < min_events:
            self.guards.append("only %d events judged (expected at least %d)" % (self.events, min_events))
        if self.guards and not viol:
            raise Machinery("coverage guard: " + "; ".join(self.guards))
        replays = []
        for i, b in enumerate(viol[:10]):
            rp = os.path.join(self.dir, "viol-%d.json" % i)
            evt = None
            try:
                with open(b["file"]) as fh:
                    for j, line in enumerate(fh, 1):
                        if j == b["line"]:
                            evt = json.loads(line)
                            break
            except Exception:
                pass
            org = self.origin.get(b["file"], {})
            program = None
            try:
                idx = evt.get("prog", evt.get("k")) if isinstance(evt, dict) else None
                if idx is not None and org.get("programs"):
                    with open(org["programs"]) as fh:
                        for j, line in enumerate(fh):
                            if j == idx:
                                program = line.strip()
                                break
            except Exception:
                pass
            json.dump(dict(property=self.prop, tier=self.tier, seed=self.seed, deviation=b, event=evt, family=org.get("fam"), program=program,
                           driver_args=org.get("args"), driver_env=org.get("env"), taskset=org.get("taskset"), race=org.get("race"),
                           trace_module=self.validated.get(b["file"]), repo_head=git_head(),
                           how="./check %s --replay <this file> re-runs exactly this program on the current tree and validates its trace" % self.prop),
                      open(rp, "w"), indent=1)
            replays.append(rp)
        wall = time.time() - self.t0
        cov = dict(states=self.states + self.tstates, transitions=self.transitions + self.tstates,
                   small_world_states=self.states, small_world_transitions=self.transitions, trace_validation_states=self.tstates,
                   traces_validated_against_impl=self.traces, evaluations=self.events,
                   distinct_nontrivial=len(self.classes), rule=rule, samples=self.samples[:6] or [{"note": "no sample recorded"}],
                   judged_per_kind=self.judged, small_world_runs=self.sw_runs, exhaustive=self.exhaustive,
                   trusted_base=trusted or ["TLC/SANY and the CommunityModules operators (FoldLeft, Json, IOUtils)",
                                            "Java accelerators (BigInteger arithmetic, curve arithmetic, SHA-256) - not axioms: each is compared with its pure TLA+ definition by ./check selftest",
                                            "the Go driver as a sensor (logging of inputs/outputs through read-only hooks, recover, watchdog)"],
                   foreign_deviations=len(self.foreign), known_findings=len(kn), notes=self.notes)
        cov.update(self.extra)
        evd = dict(property_id=self.prop, tier=self.tier, seed=self.seed, level=level, coverage=cov,
                   assumptions=assumptions or [], wall_s=round(wall, 1), violations=len(viol))
        evdir = os.path.join(VERIF, "evidence") if (REPO == "/repo" and not REPLAY_MODE) else os.path.join(OUT, "evidence-alt")   # runs on scratch copies leave the evidence alone
        os.makedirs(evdir, exist_ok=True)
        json.dump(evd, open(os.path.join(evdir, self.prop + ".json"), "w"), indent=1)
        for k, (entry, n) in kn.items():
            log("KNOWN-FINDING: property=%s %s (%d occurrences)" % (self.prop, entry.get("what", ""), n))
        for b in self.foreign[:5]:
            log("FOREIGN-DEVIATION property=%s %s" % (b["prop"], json.dumps(b["what"])))
        for b, rp in zip(viol, replays):
            log("DEVIATION line=%s %s" % (b["line"], json.dumps(b["what"])))
            log("VIOLATION property=%s replay=%s" % (self.prop, rp))
        if len(viol) > len(replays):
            log("... and %d further deviations of %s" % (len(viol) - len(replays), self.prop))
        log("RESULT property=%s tier=%s seed=%d traces=%d events=%d classes=%d sw_states=%d violations=%d known=%d wall=%.0fs" %
            (self.prop, self.tier, self.seed, self.traces, self.events, len(self.classes), self.states, len(viol), len(kn), wall))
        if cleanup and not viol:
            for f in os.listdir(self.dir):
                if f.endswith(".ndjson") or f.endswith(".jsonl") or f.endswith(".verdict.json"):
                    os.remove(os.path.join(self.dir, f))
            try:
                os.rmdir(self.dir)
            except OSError:
                pass
        return 1 if viol else 0


def git_head():
    try:
        return subprocess.run(["git", "-C", REPO, "rev-parse", "HEAD"], stdout=subprocess.PIPE, text=True).stdout.strip()
    except Exception:
        return ""
