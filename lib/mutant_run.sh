#!/bin/bash
# development aid: for each patch in mutants/ (or the ones named on the command line) apply it to the scratch worktree,
# run the repository's test suite, then the quick check of the property it targets (VERIF_REPO points at the worktree)
W=/tmp/wt/M
export GOFLAGS=-mod=mod GOPROXY=off GOSUMDB=off GOTOOLCHAIN=local
cd /verif
LOG=/verif/out/mutants.log
mkdir -p /verif/out
for pf in "${@:-mutants/*.patch}"; do
  for f in $pf; do
    name=$(basename $f .patch)
    prop=$(echo $name | sed -E 's/^(revert_fix_)?(C[0-9]+).*/\2/')
    git -C $W checkout -q -- . ; git -C $W clean -fdq
    if [[ $name == revert_fix_* ]]; then git -C $W apply -R /verif/$f || { echo "$name APPLY-FAILED" | tee -a $LOG; continue; }
    else git -C $W apply /verif/$f || { echo "$name APPLY-FAILED" | tee -a $LOG; continue; }; fi
    if [ -z "$SKIP_SUITE" ]; then
      ( cd $W && go test -vet=off -count=1 -timeout 25m ./... > /tmp/wt/M.test.log 2>&1 ); suite=$?
    else suite=skipped; fi
    VERIF_REPO=$W timeout 3000 ./check $prop quick > /tmp/wt/M.check.log 2>&1; rc=$?
    viol=$(grep -c '^VIOLATION' /tmp/wt/M.check.log)
    first=$(grep -m1 '^DEVIATION' /tmp/wt/M.check.log | cut -c1-220)
    echo "$(date +%H:%M:%S) $name prop=$prop suite_exit=$suite check_exit=$rc violations=$viol :: $first" | tee -a $LOG
    [ $rc -eq 2 ] && tail -5 /tmp/wt/M.check.log | tee -a $LOG
  done
done
git -C $W checkout -q -- .
