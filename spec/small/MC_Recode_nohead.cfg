CONSTANTS LimbBits = 4 NLimb = 2 MM = 256 WSizes = {2, 4}
SPECIFICATION Spec
INVARIANT RecodeOK
CHECK_DEADLOCK FALSE
