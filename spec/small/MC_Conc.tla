-------------------------------- MODULE MC_Conc --------------------------------
(***************************************************************************)
(* Small world for C12 (PlusCal): NC client goroutines use the library at  *)
(* the same time.  Each client call                                        *)
(*   - takes a temporary from the shared pool (sync.Pool of big integers:  *)
(*     whatever another goroutine left in it), OVERWRITES it, uses it and  *)
(*     puts it back                                                        *)
(*   - fans out to NW workers over its OWN unbuffered channel (the         *)
(*     polynomial grouping), merging the results in arrival order          *)
(*   - only reads the shared configuration                                 *)
(* All interleavings: every client's reply equals the reply of the same    *)
(* call executed alone, the configuration never changes, and every client  *)
(* returns (no deadlock, no lost wake-up).                                 *)
(* DirtyRead = TRUE models a client that uses the pooled temporary without *)
(* overwriting it first: replies then depend on the schedule               *)
(* (MC_Conc_dirty.cfg).                                                    *)
(***************************************************************************)
EXTENDS Integers, Sequences, FiniteSets, TLC
CONSTANTS NC, NW, DirtyRead
Clients == 1 .. NC
Workers == {100 * c + w : c \in Clients, w \in 1 .. NW}
Owner(p) == p \div 100
Arg(c) == 10 * c                                   \* the client's private input
Alone(c) == (Arg(c) + 7) + NW * Arg(c)               \* reply of the call executed alone: f(tmp) + sum of the worker results

(* --algorithm Conc {
  variables config = 7, pool = {0},                  \* pooled temporaries hold stale values
            ch = [c \in Clients |-> <<>>],           \* unbuffered channel of client c: at most one pending hand-off
            taken = [c \in Clients |-> FALSE],
            tmp = [c \in Clients |-> 0], sum = [c \in Clients |-> 0], got = [c \in Clients |-> 0],
            reply = [c \in Clients |-> -1];
  fair process (client \in Clients) {
    get:   with (v \in pool) { tmp[self] := v; };                  \* sync.Pool.Get: any pooled object (or a fresh one)
    set:   if (~DirtyRead) { tmp[self] := Arg(self); } else { tmp[self] := tmp[self] + Arg(self); };
    use:   sum[self] := tmp[self] + config;
    put:   pool := pool \cup {tmp[self]};                            \* the value stays in the pooled object
    recv:  while (got[self] < NW) {
             await ch[self] # <<>> /\ ~taken[self];
             sum[self] := sum[self] + Head(ch[self]);
             got[self] := got[self] + 1;
             taken[self] := TRUE;                                    \* rendezvous: the sender may proceed
           };
    ret:   reply[self] := sum[self];
  }
  fair process (worker \in Workers) {
    work:  await ch[Owner(self)] = <<>>;                             \* unbuffered send: blocks until the receiver takes it
           ch[Owner(self)] := <<Arg(Owner(self))>>;
    sent:  await taken[Owner(self)];
           ch[Owner(self)] := <<>>; taken[Owner(self)] := FALSE;
  }
} *)
\* BEGIN TRANSLATION
VARIABLES pc, config, pool, ch, taken, tmp, sum, got, reply

vars == << pc, config, pool, ch, taken, tmp, sum, got, reply >>

ProcSet == (Clients) \cup (Workers)

Init == (* Global variables *)
        /\ config = 7
        /\ pool = {0}
        /\ ch = [c \in Clients |-> <<>>]
        /\ taken = [c \in Clients |-> FALSE]
        /\ tmp = [c \in Clients |-> 0]
        /\ sum = [c \in Clients |-> 0]
        /\ got = [c \in Clients |-> 0]
        /\ reply = [c \in Clients |-> -1]
        /\ pc = [self \in ProcSet |-> CASE self \in Clients -> "get"
                                        [] self \in Workers -> "work"]

get(self) == /\ pc[self] = "get"
             /\ \E v \in pool:
                  tmp' = [tmp EXCEPT ![self] = v]
             /\ pc' = [pc EXCEPT ![self] = "set"]
             /\ UNCHANGED << config, pool, ch, taken, sum, got, reply >>

set(self) == /\ pc[self] = "set"
             /\ IF ~DirtyRead
                   THEN /\ tmp' = [tmp EXCEPT ![self] = Arg(self)]
                   ELSE /\ tmp' = [tmp EXCEPT ![self] = tmp[self] + Arg(self)]
             /\ pc' = [pc EXCEPT ![self] = "use"]
             /\ UNCHANGED << config, pool, ch, taken, sum, got, reply >>

use(self) == /\ pc[self] = "use"
             /\ sum' = [sum EXCEPT ![self] = tmp[self] + config]
             /\ pc' = [pc EXCEPT ![self] = "put"]
             /\ UNCHANGED << config, pool, ch, taken, tmp, got, reply >>

put(self) == /\ pc[self] = "put"
             /\ pool' = (pool \cup {tmp[self]})
             /\ pc' = [pc EXCEPT ![self] = "recv"]
             /\ UNCHANGED << config, ch, taken, tmp, sum, got, reply >>

recv(self) == /\ pc[self] = "recv"
              /\ IF got[self] < NW
                    THEN /\ ch[self] # <<>> /\ ~taken[self]
                         /\ sum' = [sum EXCEPT ![self] = sum[self] + Head(ch[self])]
                         /\ got' = [got EXCEPT ![self] = got[self] + 1]
                         /\ taken' = [taken EXCEPT ![self] = TRUE]
                         /\ pc' = [pc EXCEPT ![self] = "recv"]
                    ELSE /\ pc' = [pc EXCEPT ![self] = "ret"]
                         /\ UNCHANGED << taken, sum, got >>
              /\ UNCHANGED << config, pool, ch, tmp, reply >>

ret(self) == /\ pc[self] = "ret"
             /\ reply' = [reply EXCEPT ![self] = sum[self]]
             /\ pc' = [pc EXCEPT ![self] = "Done"]
             /\ UNCHANGED << config, pool, ch, taken, tmp, sum, got >>

client(self) == get(self) \/ set(self) \/ use(self) \/ put(self)
                   \/ recv(self) \/ ret(self)

work(self) == /\ pc[self] = "work"
              /\ ch[Owner(self)] = <<>>
              /\ ch' = [ch EXCEPT ![Owner(self)] = <<Arg(Owner(self))>>]
              /\ pc' = [pc EXCEPT ![self] = "sent"]
              /\ UNCHANGED << config, pool, taken, tmp, sum, got, reply >>

sent(self) == /\ pc[self] = "sent"
              /\ taken[Owner(self)]
              /\ ch' = [ch EXCEPT ![Owner(self)] = <<>>]
              /\ taken' = [taken EXCEPT ![Owner(self)] = FALSE]
              /\ pc' = [pc EXCEPT ![self] = "Done"]
              /\ UNCHANGED << config, pool, tmp, sum, got, reply >>

worker(self) == work(self) \/ sent(self)

(* Allow infinite stuttering to prevent deadlock on termination. *)
Terminating == /\ \A self \in ProcSet: pc[self] = "Done"
               /\ UNCHANGED vars

Next == (\E self \in Clients: client(self))
           \/ (\E self \in Workers: worker(self))
           \/ Terminating

Spec == /\ Init /\ [][Next]_vars
        /\ \A self \in Clients : WF_vars(client(self))
        /\ \A self \in Workers : WF_vars(worker(self))

Termination == <>(\A self \in ProcSet: pc[self] = "Done")

\* END TRANSLATION
Replies == \A c \in Clients : reply[c] # -1 => reply[c] = Alone(c)
ConfigConst == config = 7
AllReturn == <>(\A c \in Clients : reply[c] # -1)
=============================================================================
