CONSTANTS
  WP = 37 WR = 7 WA = 32 WD = 2 WGX = 2 WGY = 16 WNR = 2 WRNR = 3 WDom = 4 WRounds = 2 WCB = 1 WSB = 1
  WHash <- IdHash
  NSlots = 2
  Lambdas = {6}
  Scalars = {0, 3, 6}
  ZSet = {1, 2, 3, 6, 9, 18, 31, 35, 36}
SPECIFICATION Spec
INVARIANTS Valid C07 C11
CONSTRAINT ZBound
CHECK_DEADLOCK FALSE
