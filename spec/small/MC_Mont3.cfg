CONSTANTS WB = 4 NL = 3 MM = 2039
SPECIFICATION Spec
INVARIANTS PairOK InvOK
PROPERTY Decreases
CHECK_DEADLOCK FALSE
