CONSTANTS
  WP = 97 WR = 29 WA = 92 WD = 5 WGX = 1 WGY = 85 WNR = 5 WRNR = 2 WDom = 8 WRounds = 3 WCB = 1 WSB = 1
  WHash <- ToyHash
SPECIFICATION Spec
INVARIANT IpaOK
CHECK_DEADLOCK FALSE
