CONSTANTS MaxN = 300 MaxM = 64
SPECIFICATION Spec
INVARIANT SplitOK
CHECK_DEADLOCK FALSE
