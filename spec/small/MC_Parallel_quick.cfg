CONSTANTS MaxN = 300 MaxM = 64
SPECIFICATION Spec
INVARIANT SplitOK
INVARIANT LoopOK
CHECK_DEADLOCK FALSE
