-------------------------------- MODULE MC_Codec --------------------------------
(***************************************************************************)
(* Small world for C10 (W37, one-byte fields, one IPA round: a multiproof  *)
(* is D | L | R | a = 4 bytes): EVERY byte string of length 0..5 over a    *)
(* palette (accepted and rejected point bytes, canonical and non-canonical *)
(* scalar bytes) delivered by EVERY reader behaviour - every chunking of   *)
(* the stream, EOF reported with the last chunk or on the next call.       *)
(*   - MultiProof.Read accepts exactly the valid 4-byte strings, however   *)
(*     the reader chunks them                                              *)
(*   - on acceptance the parsed bytes are the input, and writing the       *)
(*     parsed proof reproduces them                                        *)
(* LegacyProbe = TRUE (EOF probe ignoring the byte count, the code before  *)
(* the repair of the C10 finding) accepts a trailing byte that arrives     *)
(* together with EOF: MC_Codec_legacy.cfg.                                 *)
(***************************************************************************)
EXTENDS CodecImpl, TLC
CONSTANT LegacyProbe
IdHash(bs) == bs
GoodPt == CHOOSE b \in 0 .. 255 : EDec(<<b>>)[1]
GoodPt2 == CHOOSE b \in 0 .. 255 : EDec(<<b>>)[1] /\ b # GoodPt
BadPt == CHOOSE b \in 0 .. 255 : ~EDec(<<b>>)[1]
Pal == {GoodPt, GoodPt2, BadPt, 3, WR}          \* 3: a canonical scalar byte; WR: the first non-canonical one
Strings == UNION {[1 .. n -> Pal] : n \in 0 .. 5}
(* all compositions of n into positive parts *)
RECURSIVE Comps(_)
Comps(n) == IF n = 0 THEN {<<>>} ELSE UNION {{<<k>> \o c : c \in Comps(n - k)} : k \in 1 .. n}
VARIABLES data, chunks, eofWith
Init == data \in Strings /\ chunks \in Comps(Len(data)) /\ eofWith \in BOOLEAN
Next == UNCHANGED <<data, chunks, eofWith>>
Spec == Init /\ [][Next]_<<data, chunks, eofWith>>
ReadOK ==
  LET r == RReadMP([rest |-> data, chunks |-> chunks, eofWith |-> eofWith], LegacyProbe)
  IN  /\ r.ok = CValidMPBytes(data)
      /\ (r.ok => r.bytes = data /\ CWriteMP(CReadMP(data)) = data)
=============================================================================
