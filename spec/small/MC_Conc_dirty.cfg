CONSTANTS NC = 2 NW = 1 DirtyRead = TRUE
SPECIFICATION Spec
INVARIANTS Replies ConfigConst
CHECK_DEADLOCK FALSE
