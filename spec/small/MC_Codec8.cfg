CONSTANTS WP = 37 WR = 113 WA = 32 WD = 2 WGX = 0 WGY = 1 WNR = 2 WRNR = 3 WDom = 4 WRounds = 2 WCB = 1 WSB = 1
  WHash <- IdHash
  CopyFirst = TRUE
SPECIFICATION Spec
INVARIANTS Refines Exact
PROPERTY Frame
CHECK_DEADLOCK FALSE
