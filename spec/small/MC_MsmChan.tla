------------------------------ MODULE MC_MsmChan ------------------------------
(***************************************************************************)
(* C09 / C12, synchronisation skeleton of MultiExp (PlusCal):              *)
(*  stage 1  partitionScalars: parallel.Execute spawns K tasks; each sends *)
(*           its count into chSmallValues (buffered, capacity Cap);        *)
(*           Execute joins the tasks; then the channel is closed and       *)
(*           drained.  Deadlock-free iff K <= Cap, which is what ties this *)
(*           to C20 (Execute starts at most nbTasks = Cap invocations).    *)
(*  stage 2  msmCk: one goroutine per chunk sends its bucket sum into its  *)
(*           own channel (capacity 1); chunk 0 may be split in two halves  *)
(*           whose results a combiner adds; the reducer receives the       *)
(*           chunks from the most significant to the least.                *)
(* All interleavings: the call returns, and the value returned does not    *)
(* depend on the schedule.                                                 *)
(***************************************************************************)
EXTENDS Integers, Sequences, FiniteSets, TLC
CONSTANTS K, Cap, NC, Split

(* --algorithm MsmChan {
  variables chSmall = <<>>, wg = K, small = -1,
            ch = [j \in 0 .. (NC - 1) |-> <<>>], chSplit = <<>>, acc = <<>>, returned = FALSE;
  fair process (main = 100) {
    join:   await wg = 0;                                   \* parallel.Execute returned
    drain:  small := Len(chSmall); chSmall := <<>>;         \* close + range over the channel
    reduce: while (Len(acc) < NC) {
              await ch[NC - 1 - Len(acc)] # <<>>;
              acc := Append(acc, Head(ch[NC - 1 - Len(acc)]));
            };
    ret:    returned := TRUE;
  }
  fair process (ptask \in 1 .. K) {
    send:   await Len(chSmall) < Cap;                       \* buffered channel of capacity nbTasks
            chSmall := Append(chSmall, self);
    done:   wg := wg - 1;
  }
  fair process (chunk \in 201 .. (200 + NC - 1)) {          \* chunks 1 .. NC-1
    c1:     await small >= 0 /\ Len(ch[self - 200]) < 1;
            ch[self - 200] := <<self - 200>>;
  }
  fair process (first \in {300, 301}) {                      \* chunk 0, whole or in two halves
    f1:     await small >= 0;
            if (~Split) {
              if (self = 300) { await Len(ch[0]) < 1; ch[0] := <<0>>; }
            } else {
              await Len(chSplit) < 2; chSplit := Append(chSplit, self);
            }
  }
  fair process (combiner = 400) {
    k1:     await Split /\ Len(chSplit) = 2;
            await Len(ch[0]) < 1;
            ch[0] := <<0>>; chSplit := <<>>;
  }
} *)
\* BEGIN TRANSLATION
VARIABLES pc, chSmall, wg, small, ch, chSplit, acc, returned

vars == << pc, chSmall, wg, small, ch, chSplit, acc, returned >>

ProcSet == {100} \cup (1 .. K) \cup (201 .. (200 + NC - 1)) \cup ({300, 301}) \cup {400}

Init == (* Global variables *)
        /\ chSmall = <<>>
        /\ wg = K
        /\ small = -1
        /\ ch = [j \in 0 .. (NC - 1) |-> <<>>]
        /\ chSplit = <<>>
        /\ acc = <<>>
        /\ returned = FALSE
        /\ pc = [self \in ProcSet |-> CASE self = 100 -> "join"
                                        [] self \in 1 .. K -> "send"
                                        [] self \in 201 .. (200 + NC - 1) -> "c1"
                                        [] self \in {300, 301} -> "f1"
                                        [] self = 400 -> "k1"]

join == /\ pc[100] = "join"
        /\ wg = 0
        /\ pc' = [pc EXCEPT ![100] = "drain"]
        /\ UNCHANGED << chSmall, wg, small, ch, chSplit, acc, returned >>

drain == /\ pc[100] = "drain"
         /\ small' = Len(chSmall)
         /\ chSmall' = <<>>
         /\ pc' = [pc EXCEPT ![100] = "reduce"]
         /\ UNCHANGED << wg, ch, chSplit, acc, returned >>

reduce == /\ pc[100] = "reduce"
          /\ IF Len(acc) < NC
                THEN /\ ch[NC - 1 - Len(acc)] # <<>>
                     /\ acc' = Append(acc, Head(ch[NC - 1 - Len(acc)]))
                     /\ pc' = [pc EXCEPT ![100] = "reduce"]
                ELSE /\ pc' = [pc EXCEPT ![100] = "ret"]
                     /\ acc' = acc
          /\ UNCHANGED << chSmall, wg, small, ch, chSplit, returned >>

ret == /\ pc[100] = "ret"
       /\ returned' = TRUE
       /\ pc' = [pc EXCEPT ![100] = "Done"]
       /\ UNCHANGED << chSmall, wg, small, ch, chSplit, acc >>

main == join \/ drain \/ reduce \/ ret

send(self) == /\ pc[self] = "send"
              /\ Len(chSmall) < Cap
              /\ chSmall' = Append(chSmall, self)
              /\ pc' = [pc EXCEPT ![self] = "done"]
              /\ UNCHANGED << wg, small, ch, chSplit, acc, returned >>

done(self) == /\ pc[self] = "done"
              /\ wg' = wg - 1
              /\ pc' = [pc EXCEPT ![self] = "Done"]
              /\ UNCHANGED << chSmall, small, ch, chSplit, acc, returned >>

ptask(self) == send(self) \/ done(self)

c1(self) == /\ pc[self] = "c1"
            /\ small >= 0 /\ Len(ch[self - 200]) < 1
            /\ ch' = [ch EXCEPT ![self - 200] = <<self - 200>>]
            /\ pc' = [pc EXCEPT ![self] = "Done"]
            /\ UNCHANGED << chSmall, wg, small, chSplit, acc, returned >>

chunk(self) == c1(self)

f1(self) == /\ pc[self] = "f1"
            /\ small >= 0
            /\ IF ~Split
                  THEN /\ IF self = 300
                             THEN /\ Len(ch[0]) < 1
                                  /\ ch' = [ch EXCEPT ![0] = <<0>>]
                             ELSE /\ TRUE
                                  /\ ch' = ch
                       /\ UNCHANGED chSplit
                  ELSE /\ Len(chSplit) < 2
                       /\ chSplit' = Append(chSplit, self)
                       /\ ch' = ch
            /\ pc' = [pc EXCEPT ![self] = "Done"]
            /\ UNCHANGED << chSmall, wg, small, acc, returned >>

first(self) == f1(self)

k1 == /\ pc[400] = "k1"
      /\ Split /\ Len(chSplit) = 2
      /\ Len(ch[0]) < 1
      /\ ch' = [ch EXCEPT ![0] = <<0>>]
      /\ chSplit' = <<>>
      /\ pc' = [pc EXCEPT ![400] = "Done"]
      /\ UNCHANGED << chSmall, wg, small, acc, returned >>

combiner == k1

(* Allow infinite stuttering to prevent deadlock on termination. *)
Terminating == /\ \A self \in ProcSet: pc[self] = "Done"
               /\ UNCHANGED vars

Next == main \/ combiner
           \/ (\E self \in 1 .. K: ptask(self))
           \/ (\E self \in 201 .. (200 + NC - 1): chunk(self))
           \/ (\E self \in {300, 301}: first(self))
           \/ Terminating

Spec == /\ Init /\ [][Next]_vars
        /\ WF_vars(main)
        /\ \A self \in 1 .. K : WF_vars(ptask(self))
        /\ \A self \in 201 .. (200 + NC - 1) : WF_vars(chunk(self))
        /\ \A self \in {300, 301} : WF_vars(first(self))
        /\ WF_vars(combiner)

Termination == <>(\A self \in ProcSet: pc[self] = "Done")

\* END TRANSLATION
Returns == <>returned
Result  == returned => /\ acc = [i \in 1 .. NC |-> NC - i] /\ small = K
=============================================================================
