CONSTANTS
  WP = 73 WR = 17 WA = 68 WD = 5 WGX = 1 WGY = 53 WNR = 5 WRNR = 3 WDom = 4 WRounds = 2 WCB = 1 WSB = 1
  WHash <- ToyHash
  MaxN = 2 MaxW = 3 Compact = TRUE Dishonest = FALSE
SPECIFICATION Spec
INVARIANTS Group Refines Complete Verifier
CHECK_DEADLOCK FALSE
