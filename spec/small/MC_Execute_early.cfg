CONSTANTS MaxN = 5 MaxM = 3 EarlyDone = TRUE
SPECIFICATION Spec
INVARIANTS JoinOK NeverTwice
CHECK_DEADLOCK FALSE
