------------------------------- MODULE MC_Misc -------------------------------
(***************************************************************************)
(* Small-world sanity of spec/core/Misc.tla: on a small curve, for EVERY   *)
(* point and every projective scaling,                                     *)
(*  - the extended form is well formed and the extended mixed addition     *)
(*    (the code's formula) is the group law, including doubling, inverse   *)
(*    and identity operands in both positions;                             *)
(*  - trusted decoding accepts exactly the x < p with a curve point and    *)
(*    inverts encoding on the subgroup;                                    *)
(*  - the uncompressed affine form round-trips;                            *)
(*  - the decimal printer inverts decimal evaluation.                      *)
(***************************************************************************)
EXTENDS EdwardsImpl, Misc, TLC
IdHash(bs) == bs
FpSet == {NOfInt(i) : i \in 0 .. (NToInt(WP) - 1)}
Curve == {P \in FpSet \X FpSet : EOnCurve(P)}
VARIABLES P, z
Init == P \in Curve /\ z \in {N1, NOfInt(2), NSub(WP, N1), NOfInt(29)}
Next == UNCHANGED <<P, z>>
Proj(Q, s) == <<FMul(WP, Q[1], s), FMul(WP, Q[2], s), s>>
ExtOK ==
  LET pe == MExtFromProj(Proj(P, z)) IN
  /\ MExtWellFormed(pe) /\ MExtAff(pe) = P
  /\ \A Q \in Curve :
       \* the complete addition law holds for every pair on this curve when the denominators do not vanish (always, on the subgroup)
       EAddDefined(P, Q) =>
         LET s == IExtAddNormalized(pe, IExtOfAffine(Q)) IN MExtWellFormed(s) /\ MExtAff(s) = EAdd(P, Q)
  /\ IExtNeg(IExtOfAffine(P)) = IExtOfAffine(ENeg(P))
UnsafeOK ==
  /\ LET d == MDecUnsafe(NToBytesBE(P[1], WCB)) IN d[1] /\ d[2][1] = P[1] /\ (d[2][2] = P[2] \/ d[2][2] = FNeg(WP, P[2]))
  /\ (EValid(P) => MDecUnsafe(EEnc(P))[1] /\ EEq(MDecUnsafe(EEnc(P))[2], P))
  /\ MIsOnCurve(Proj(P, z))
UncOK == MUncRead(MUncWrite(P)) = P
ASSUME \A x \in FpSet : MDecUnsafe(NToBytesBE(x, WCB))[1] = (\E Q \in Curve : Q[1] = x)
ASSUME \A i \in {0, 1, 9, 10, 99, 100, 101, 65535, 65536, 1000000, 2147483647} :
          MDec(NOfInt(i)) = ToString(i)
ASSUME MPowersOf(NOfInt(3), 5) = <<NOfInt(1), NOfInt(3), NOfInt(9 % NToInt(WR)), NOfInt(27 % NToInt(WR)), NOfInt(81 % NToInt(WR))>>
=============================================================================
