-------------------------------- MODULE MC_Poly --------------------------------
(***************************************************************************)
(* Small world for C18 (scalar field F_17, domain {0..3}; F_29, {0..7}):   *)
(* for EVERY evaluation-form polynomial f (D = 4) - a palette for D = 8 -  *)
(* every domain index k and every point z outside the domain               *)
(*   - DivideOnDomain as written (tables, sign select, ratio of weights)   *)
(*     = the textbook quotient = the unique q with q(X)(X-k) = f(X) - f(k) *)
(*     as polynomials (table-free characterisation, and coefficient form)  *)
(*   - ComputeBarycentricCoefficients as written = Lagrange coefficients   *)
(*     = the Vandermonde characterisation; <f, b> = p(z) evaluated in      *)
(*     coefficient (Newton) form                                           *)
(*   - the tables equal their definitions                                  *)
(***************************************************************************)
EXTENDS PolyImpl, TLC
CONSTANT Palette
IdHash(bs) == bs
AP  == PAprimeVec
BW  == PIWeights
INV == PIInverted
VARIABLE f
Init == f = [i \in 1 .. WDom |-> 0]
(* odometer over all vectors with entries in Palette: successor states share the work among workers *)
Next == \E i \in 1 .. WDom, v \in Palette : f[i] = 0 /\ v # 0 /\ (\A j \in 1 .. (i - 1) : TRUE) /\ f' = [f EXCEPT ![i] = v]
Spec == Init /\ [][Next]_f

QuotientOK ==
  \A k \in 0 .. (WDom - 1) :
    LET q == PIDivideOnDomain(BW, INV, k, f)
        cq == PNewtonCoeffs(q)
    IN  /\ q = PQuotient(AP, f, k)
        /\ PIsQuotient(AP, f, k, q)
        \* as polynomials: q has degree < D-1 and q(t)(t-k) = f(t) - f(k) at D fresh points (enough: both sides have degree < D)
        /\ \A t \in WDom .. (2 * WDom - 1) : FMul(WR, PEval(q, PFr(t)), FSub(WR, PFr(t), PFr(k))) = FSub(WR, PEval(f, PFr(t)), f[k + 1])
        /\ cq[WDom] = 0
BaryOK ==
  \A z \in WDom .. (WR - 1) :
    LET b == PIBarycentric(BW, z)
    IN  /\ b = PLagrange(AP, z)
        /\ PIsLagrange(b, z)
        /\ FInner(WR, f, b) = PEval(f, z)
InDomainOK == \A i \in 0 .. (WDom - 1) : PEval(f, i) = f[i + 1]
ASSUME /\ \A i \in 1 .. WDom : BW[i] = PAprime(i - 1) /\ FMul(WR, BW[i], BW[i + WDom]) = 1
       /\ \A k \in 1 .. (WDom - 1) : FMul(WR, INV[k], k) = 1 /\ FAdd(WR, INV[k], INV[k + WDom - 1]) = 0
=============================================================================
