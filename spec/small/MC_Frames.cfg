CONSTANTS MaxN = 3 MaxW = 3 Dom = 2 CallerAsAccumulator = FALSE
SPECIFICATION Spec
INVARIANT Frame
CHECK_DEADLOCK FALSE
