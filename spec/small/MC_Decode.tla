------------------------------- MODULE MC_Decode -------------------------------
(***************************************************************************)
(* Small world for C06: EVERY byte string of length 0..2*WCB (+1) is given *)
(* to the compressed and uncompressed untrusted decoders of the            *)
(* specification.  Field elements need fewer bits than a byte here, so the *)
(* non-canonical aliases x + k*p exist exactly as they do for 255-bit      *)
(* elements in 32 bytes.  Checked for every input:                         *)
(*   accept <=> (length, x < p, on curve, subgroup test, y < p and the     *)
(*              larger root), stated without computing a square root       *)
(*   accepted => element of order dividing WR, re-encoding = input         *)
(* and globally: exactly WR inputs are accepted by each decoder and they   *)
(* decode to pairwise different elements (no element has two encodings).   *)
(* Legacy = TRUE models the uncompressed decoder before the repair of the  *)
(* C06 finding (x parsed with reduction): the global count fails.          *)
(***************************************************************************)
EXTENDS EdwardsImpl, TLC, FiniteSets

CONSTANT Legacy
IdHash(bs) == bs
Bytes1 == {<<a>> : a \in 0 .. 255}
Bytes2 == {<<a, b>> : a \in 0 .. 255, b \in 0 .. 255}
Inputs == {<<>>} \cup Bytes1 \cup Bytes2 \cup {<<a, b, 0>> : a \in {0, WGX}, b \in {0, WGY}}

(* the decoder as the code had it: x reduced instead of rejected *)
LegacyDecUncompressed(bs) ==
  IF Len(bs) # 2 * WCB THEN <<FALSE, EId>>
  ELSE LET x  == NMod(NFromBytesBE(SubSeq(bs, 1, WCB)), WP)
           yb == NFromBytesBE(SubSeq(bs, WCB + 1, 2 * WCB))
           y  == EYFromX(x, TRUE)
       IN  IF ~y[1] \/ y[2] # yb THEN <<FALSE, EId>>
           ELSE IF ~ESubgroupX(x) THEN <<FALSE, EId>>
           ELSE <<TRUE, <<x, yb>>>>
DecU(bs) == IF Legacy THEN LegacyDecUncompressed(bs) ELSE EDecUncompressed(bs)

AcceptsU(bs) ==
  /\ Len(bs) = 2 * WCB
  /\ LET x == NFromBytesBE(SubSeq(bs, 1, WCB))  y == NFromBytesBE(SubSeq(bs, WCB + 1, 2 * WCB))
     IN  /\ x < WP /\ y < WP /\ EOnCurve(<<x, y>>) /\ FLexLargest(WP, y) /\ ESubgroupX(x)

VARIABLE b
Init == b \in Inputs
Next == UNCHANGED b
Spec == Init /\ [][Next]_b

PerInput ==
  LET c == EDec(b)  u == DecU(b)
  IN  /\ c[1] = EDecAccepts(b)
      /\ (c[1] => /\ EValid(c[2]) /\ EEq(EMul(WR, c[2]), EId) /\ EEnc(c[2]) = b
                  /\ IBytes(<<c[2][1], c[2][2], N1>>) = b)
      /\ u[1] = AcceptsU(b)
      /\ (u[1] => /\ EValid(u[2]) /\ EEq(EMul(WR, u[2]), EId) /\ EEncUncompressed(u[2]) = b
                  /\ EDecUncompressedTrusted(b) = u[2])

AccC == {x \in Bytes1 : EDec(x)[1]}
AccU == {x \in Bytes2 : DecU(x)[1]}
Global ==
  /\ Cardinality(AccC) = WR /\ Cardinality(AccU) = WR
  /\ \A x \in AccC, y \in AccC : x # y => ~EEq(EDec(x)[2], EDec(y)[2])
  /\ \A x \in AccU, y \in AccU : x # y => ~EEq(DecU(x)[2], DecU(y)[2])
ASSUME Global
=============================================================================
