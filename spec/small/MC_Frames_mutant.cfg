CONSTANTS MaxN = 3 MaxW = 3 Dom = 2 CallerAsAccumulator = TRUE
SPECIFICATION Spec
INVARIANT Frame
CHECK_DEADLOCK FALSE
