--------------------------------- MODULE Num ---------------------------------
(***************************************************************************)
(* The number layer of the SMALL worlds: TLC's native integers.  Same      *)
(* operator names as spec/real/Num.tla (see there).                        *)
(***************************************************************************)
EXTENDS Integers, Sequences, SequencesExt

N0 == 0
N1 == 1
NOfInt(i) == i
NToInt(n) == n
NAdd(a, b) == a + b
NSub(a, b) == a - b
NMul(a, b) == a * b
NDiv(a, b) == a \div b
NMod(a, m) == a % m
NLt(a, b)  == a < b
NLe(a, b)  == a <= b
NAddMod(a, b, m) == (a + b) % m
NSubMod(a, b, m) == (a - b) % m
NMulMod(a, b, m) == (a * b) % m
NIdx(n) == [i \in 1 .. n |-> i]
NIntBitLen(v) == IF v = 0 THEN 0 ELSE CHOOSE k \in 1 .. 31 : 2 ^ (k - 1) <= v /\ v < 2 ^ k
NBit(n, i) == (n \div (2 ^ i)) % 2
NBitLen(n) == NIntBitLen(n)
NShr(n, k) == n \div (2 ^ k)
NPowMod(b, e, m) ==
  LET n == NIntBitLen(e)
  IN  FoldLeft(LAMBDA acc, k : LET sq == (acc * acc) % m
                               IN  IF NBit(e, n - k) = 1 THEN (sq * (b % m)) % m ELSE sq,
               1 % m, NIdx(n))
NInvMod(a, m) == NPowMod(a, m - 2, m)
NFromBytesBE(bs) == FoldLeft(LAMBDA acc, x : acc * 256 + x, 0, bs)
NFromBytesLE(bs) == NFromBytesBE(Reverse(bs))
NToBytesLE(n, len) == [i \in 1 .. len |-> (n \div (256 ^ (i - 1))) % 256]
NToBytesBE(n, len) == Reverse(NToBytesLE(n, len))

(***************************************************************************)
(* Eager let.  TLC evaluates LET definitions and operator arguments lazily *)
(* and RE-EVALUATES them at every reference, so an expensive definition    *)
(* referenced n times costs n evaluations (and chains of such definitions  *)
(* multiply).  ELet(v, LAMBDA x : body) evaluates v exactly once - as the  *)
(* element of a tuple handed to the (Java) FoldLeft - and binds the        *)
(* resulting VALUE to x in body.  Semantically ELet(v, F) = F(v).          *)
(***************************************************************************)
ELet(v, F(_)) == FoldLeft(LAMBDA acc, x : F(x), 0, <<v>>)
=============================================================================
