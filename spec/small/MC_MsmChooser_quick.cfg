CONSTANTS MaxN = 700 Tasks = {1, 2, 3, 5, 8, 16, 17, 32, 63, 64, 65, 128, 255, 256, 257, 1024}
SPECIFICATION Spec
INVARIANT ChooserOK
CHECK_DEADLOCK FALSE
