CONSTANTS
  WP = 73 WR = 17 WA = 68 WD = 5 WGX = 1 WGY = 53 WNR = 5 WRNR = 3 WDom = 4 WRounds = 2 WCB = 1 WSB = 1
  WHash <- IdHash
  Palette = {0, 1, 2, 3, 4, 5, 6, 7, 8, 9, 10, 11, 12, 13, 14, 15, 16}
SPECIFICATION Spec
INVARIANTS QuotientOK BaryOK InDomainOK
CHECK_DEADLOCK FALSE
