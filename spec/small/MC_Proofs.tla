-------------------------------- MODULE MC_Proofs --------------------------------
(***************************************************************************)
(* Small world for the proof protocols (C01 C02 C03 C04) - W73: scalar     *)
(* field F_17, domain {0..3}, two IPA rounds, toy hash.  The case space is *)
(* walked by Next (one choice per step) so that TLC's workers share it:    *)
(*   shape   n <= MaxN openings, EVERY index vector zs in {0..3}^n, every  *)
(*           assignment of polynomials from a palette                      *)
(*   sched   W in 1..MaxW workers and EVERY arrival order of their results *)
(* Checked for every case:                                                 *)
(*   Group     grouping as the code does it = sum over the openings of     *)
(*             each index, whatever W and the arrival order                *)
(*   Refines   the code-shaped prover (grouped, table division, compacted  *)
(*             inverse denominators) outputs the textbook proof            *)
(*   Complete  the textbook verifier accepts it and ends in the prover's   *)
(*             transcript state - whenever the challenges satisfy the      *)
(*             protocol's side conditions (t outside the domain, x_j # 0,  *)
(*             w # 0), which a 17-element field violates often and the     *)
(*             real one with probability ~2^-245                           *)
(*   Verifier  the code-shaped verifier (grouped evaluations, batch        *)
(*             inverted denominators, bit-pattern folding scalars, one     *)
(*             MSM) returns exactly the textbook verdict, for the honest   *)
(*             statement AND for every single-component replacement        *)
(* Compact = FALSE (inverse denominators indexed by evaluation index) is   *)
(* refuted: MC_Proofs_denidx.cfg.                                          *)
(***************************************************************************)
EXTENDS ProofImpl, TLC
CONSTANTS MaxN, MaxW, Compact, Dishonest
ToyHash(bs) == LET h == FoldLeft(LAMBDA acc, x : (acc * 31 + x + 1) % 65521, 7, bs) IN <<h % 256, h \div 256>>
G1 == <<WGX, WGY>>
Basis == [i \in 1 .. WDom |-> EMul(i + 1, G1)]             \* WDom elements (no independence needed for these properties)
Cfg == [G |-> Basis, Q |-> G1]
AP  == PAprimeVec
BW  == PIWeights
INV == PIInverted
PolyPal == << [i \in 1 .. WDom |-> 0], [i \in 1 .. WDom |-> 5], [i \in 1 .. WDom |-> IF i = WDom THEN 1 ELSE 0],
              [i \in 1 .. WDom |-> WR - 1], [i \in 1 .. WDom |-> (3 * i * i + 2) % WR] >>
Label == <<9>>
Elements == {EMul(k, G1) : k \in 0 .. (WR - 1)}

VARIABLES zs, ps, W, order, phase
vars == <<zs, ps, W, order, phase>>
Init == zs = <<>> /\ ps = <<>> /\ W = 0 /\ order = <<>> /\ phase = "shape"
Next ==
  \/ /\ phase = "shape" /\ Len(zs) < MaxN
     /\ \E z \in 0 .. (WDom - 1), p \in 1 .. Len(PolyPal) : zs' = Append(zs, z) /\ ps' = Append(ps, p)
     /\ UNCHANGED <<W, order, phase>>
  \/ /\ phase = "shape" /\ Len(zs) >= 1
     /\ \E w \in 1 .. MaxW : W' = w /\ phase' = "sched"
     /\ UNCHANGED <<zs, ps, order>>
  \/ /\ phase = "sched" /\ Len(order) < W
     /\ \E k \in (1 .. W) \ {order[i] : i \in 1 .. Len(order)} : order' = Append(order, k)
     /\ UNCHANGED <<zs, ps, W, phase>>
Spec == Init /\ [][Next]_vars

Ready == phase = "sched" /\ Len(order) = W
OpsOf == [i \in 1 .. Len(zs) |-> [C |-> PCommit(Basis, PolyPal[ps[i]]), f |-> PolyPal[ps[i]], z |-> zs[i]]]
Tr0 == TNew(Label)
StatementOf(ops) == [Cs |-> [i \in 1 .. Len(zs) |-> ops[i].C], zs |-> zs, ys |-> [i \in 1 .. Len(zs) |-> ops[i].f[zs[i] + 1]]]

Group == Ready =>
  LET fs == [i \in 1 .. Len(zs) |-> PolyPal[ps[i]]]
      pw == FPowers(WR, 3, Len(zs))
  IN  GGroup(fs, pw, zs, W, order) = GSpec(fs, pw, zs)

(* (ELet: eager let of module Num - the bound value is computed once) *)
Refines == Ready =>
  ELet(OpsOf, LAMBDA ops :
  ELet(MPProve(Tr0, Cfg, AP, ops), LAMBDA t :
  ELet(ImplProve(Tr0, Cfg, BW, INV, AP, ops, W, order, Compact), LAMBDA i :
      /\ i.g = t.g /\ i.h = t.h
      /\ i.D = t.D /\ i.ipa = t.ipa /\ i.tr = t.tr)))

SideOK(t) == /\ ~NLt(t.t, NOfInt(WDom)) /\ t.w # 0 /\ \A k \in 1 .. Len(t.xs) : t.xs[k] # 0
Complete == (Ready /\ order = [k \in 1 .. W |-> k]) =>
  ELet(OpsOf, LAMBDA ops :
  ELet(MPProve(Tr0, Cfg, AP, ops), LAMBDA t :
  ELet(StatementOf(ops), LAMBDA S :
  ELet(MPVerify(Tr0, Cfg, AP, [D |-> t.D, ipa |-> t.ipa], S.Cs, S.zs, S.ys), LAMBDA v :
    SideOK(t) => (v.ok /\ ~v.err /\ v.tr = t.tr)))))

(* every single-component replacement of the honest statement / proof *)
Agree(pf, Cs, z2, ys) ==
  ELet(MPVerify(Tr0, Cfg, AP, pf, Cs, z2, ys), LAMBDA a :
  ELet(ImplVerify(Tr0, Cfg, AP, pf, Cs, z2, ys), LAMBDA b :
    a.ok = b.ok /\ a.err = b.err /\ (~a.err => a.tr = b.tr)))
Verifier == (Ready /\ W = 1) =>
  ELet(OpsOf, LAMBDA ops :
  ELet(MPProve(Tr0, Cfg, AP, ops), LAMBDA t :
  ELet([D |-> t.D, ipa |-> t.ipa], LAMBDA pf :
  ELet(StatementOf(ops), LAMBDA S :
    LET n == Len(zs) IN
      /\ Agree(pf, S.Cs, S.zs, S.ys)
      /\ Dishonest =>
           /\ \A e \in Elements : Agree([pf EXCEPT !.D = e], S.Cs, S.zs, S.ys)
           /\ \A e \in Elements, k \in 1 .. WRounds : /\ Agree([pf EXCEPT !.ipa.L[k] = e], S.Cs, S.zs, S.ys)
                                                       /\ Agree([pf EXCEPT !.ipa.R[k] = e], S.Cs, S.zs, S.ys)
           /\ \A s \in 0 .. (WR - 1) : Agree([pf EXCEPT !.ipa.a = s], S.Cs, S.zs, S.ys)
           /\ \A i \in 1 .. n, s \in 0 .. (WR - 1) : Agree(pf, S.Cs, S.zs, [S.ys EXCEPT ![i] = s])
           /\ \A i \in 1 .. n, z \in 0 .. (WDom - 1) : Agree(pf, S.Cs, [S.zs EXCEPT ![i] = z], S.ys)
           /\ \A i \in 1 .. n, e \in Elements : Agree(pf, [S.Cs EXCEPT ![i] = e], S.zs, S.ys)
           /\ Agree([pf EXCEPT !.ipa.L = SubSeq(@, 1, WRounds - 1)], S.Cs, S.zs, S.ys)
           /\ Agree([pf EXCEPT !.ipa.R = Append(@, G1)], S.Cs, S.zs, S.ys)
           /\ Agree(pf, S.Cs, S.zs, SubSeq(S.ys, 1, n - 1))
           /\ Agree(pf, <<>>, <<>>, <<>>)))))
=============================================================================
