CONSTANTS MM = 2097143 Cs = {3, 5, 7, 8} Ord = 1009 LB = 8 NLimb = 3
SPECIFICATION Spec
INVARIANT PartitionOK
CHECK_DEADLOCK FALSE
