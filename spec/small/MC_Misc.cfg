CONSTANTS
  WP = 73 WR = 17 WA = 68 WD = 5 WGX = 1 WGY = 53 WNR = 5 WRNR = 3 WDom = 4 WRounds = 2 WCB = 1 WSB = 1
  WHash <- IdHash
INIT Init
NEXT Next
INVARIANT ExtOK
INVARIANT UnsafeOK
INVARIANT UncOK
CHECK_DEADLOCK FALSE
