CONSTANTS
  WP = 37 WR = 65521 WA = 32 WD = 2 WGX = 2 WGY = 16 WNR = 2 WRNR = 3 WDom = 4 WRounds = 2 WCB = 1 WSB = 2
  WHash <- ToyHash
  MaxDepth = 5
  Cap = 0
SPECIFICATION Spec
INVARIANT Agree
CHECK_DEADLOCK FALSE
