CONSTANTS NC = 2 NW = 2 DirtyRead = FALSE
SPECIFICATION Spec
INVARIANTS Replies ConfigConst
PROPERTY AllReturn
CHECK_DEADLOCK FALSE
