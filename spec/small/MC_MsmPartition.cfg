CONSTANTS MM = 8191 Cs = {2, 3, 4, 5, 6, 7, 8} Ord = 1009 LB = 8 NLimb = 2
SPECIFICATION Spec
INVARIANT PartitionOK
CHECK_DEADLOCK FALSE
