----------------------------- MODULE MC_Transcript -----------------------------
(***************************************************************************)
(* Small world for C14: ALL operation sequences up to MaxDepth over a      *)
(* small alphabet of labels/messages (including the empty string), with    *)
(* the hash abstracted to the identity on byte strings so that a challenge *)
(* exposes exactly the byte stream it depends on.                          *)
(*  - the specification machine (module Transcript),                       *)
(*  - the machine as the code has it (running hash state + buffer, the     *)
(*    challenge re-absorbed under its label after a reset), with an        *)
(*    optional buffer capacity Cap that silently drops appends (Cap = 0:   *)
(*    unbounded, the real code; Cap > 0: the mutant of the property text), *)
(*  - the declarative history: protocol label followed by every label and  *)
(*    message since the last challenge.                                    *)
(* Invariant: all three agree in every reachable state, and every          *)
(* challenge returned by the code-shaped machine equals the specified one. *)
(***************************************************************************)
EXTENDS Transcript, TLC
CONSTANTS MaxDepth, Cap
ToyHash(bs) == LET h == FoldLeft(LAMBDA acc, x : (acc * 31 + x + 1) % 65521, 7, bs) IN <<h % 256, h \div 256>>
Alpha == {<<>>, <<1>>, <<1, 2>>}
VARIABLES t, im, hist, depth, lastc
vars == <<t, im, hist, depth, lastc>>
Flat(ss) == FoldLeft(LAMBDA acc, s : acc \o s, <<>>, ss)

Write(buff, s) == IF Cap > 0 /\ Len(buff) + Len(s) > Cap THEN buff ELSE buff \o s      \* the mutant drops, the code appends
Init == \E pl \in Alpha : t = TNew(pl) /\ im = [hashed |-> pl, buff |-> <<>>] /\ hist = <<pl>> /\ depth = 0 /\ lastc = <<N0, N0>>
DomainSep(lb) == /\ t' = TDomainSep(t, lb) /\ im' = [im EXCEPT !.buff = Write(@, lb)] /\ hist' = Append(hist, lb) /\ UNCHANGED lastc
AppendMsg(lb, m) == /\ t' = TAppend(t, lb, m)
                    /\ im' = [im EXCEPT !.buff = Write(Write(@, lb), m)]
                    /\ hist' = hist \o <<lb, m>> /\ UNCHANGED lastc
Challenge(lb) ==
  LET b1 == Write(im.buff, lb)                                   \* t.DomainSep(label)
      c  == NMod(NFromBytesLE(WHash(im.hashed \o b1)), WR)       \* state.Write(buff); Sum; reduce
      cb == NToBytesLE(c, WSB)
  IN  /\ im' = [hashed |-> <<>>, buff |-> Write(Write(<<>>, lb), cb)]   \* reset, AppendScalar(challenge, label)
      /\ t' = TAfterChallenge(t, lb)
      /\ lastc' = <<c, TChallengeValue(t, lb)>>
      /\ hist' = <<lb, TScalarBytes(TChallengeValue(t, lb))>>
Next == /\ depth < MaxDepth /\ depth' = depth + 1
        /\ \E lb \in Alpha : DomainSep(lb) \/ Challenge(lb) \/ \E m \in Alpha : AppendMsg(lb, m)
Spec == Init /\ [][Next]_vars

Agree == /\ t.h \o t.p = Flat(hist)
         /\ im.hashed \o im.buff = Flat(hist)
         /\ lastc[1] = lastc[2]
=============================================================================
