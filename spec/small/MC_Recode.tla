------------------------------- MODULE MC_Recode -------------------------------
(***************************************************************************)
(* Small world for C05: the signed-window recoding of the table-based      *)
(* scalar multiplication on an 8-bit machine (2 limbs of 4 bits) with      *)
(* modulus MM = 113 whose top bit is clear like r's, windows of 2 and 4    *)
(* bits: for EVERY scalar below the modulus                                *)
(*   - the accesses reconstruct the scalar: sum +-entry * 2^(ws*window)    *)
(*   - every entry index lies in 1 .. 2^(ws-1) (the table has exactly that *)
(*     many entries per window)                                            *)
(*   - no carry is left after the top window (this NEEDS the headroom of   *)
(*     the modulus: for scalars up to 2^8-1 it fails, see                  *)
(*     MC_Recode_nohead.cfg)                                               *)
(***************************************************************************)
EXTENDS PedersenImpl, TLC
CONSTANTS LimbBits, NLimb, MM, WSizes
VARIABLES sh, sl
s == 256 * sh + sl
Init == sh = 0 /\ sl = 0
Next == \/ sl < 255 /\ 256 * sh + sl + 1 < MM /\ sl' = sl + 1 /\ sh' = sh
        \/ 256 * (sh + 1) + sl < MM /\ sh' = sh + 1 /\ sl' = sl
Spec == Init /\ [][Next]_<<sh, sl>>
RecodeOK == \A ws \in WSizes :
              LET r == PRecode(s, LimbBits, NLimb, ws) IN
              /\ PRecodeValue(r[1], ws) = s
              /\ r[2] = 0
              /\ \A i \in 1 .. Len(r[1]) : r[1][i][2] >= 1 /\ r[1][i][2] <= PP2(ws - 1) /\ r[1][i][1] < (LimbBits \div ws) * NLimb
=============================================================================
