CONSTANTS
  WP = 37 WR = 7 WA = 32 WD = 2 WGX = 2 WGY = 16 WNR = 2 WRNR = 3 WDom = 4 WRounds = 2 WCB = 1 WSB = 1
  WHash <- IdHash
  Dedupe = FALSE
SPECIFICATION Spec
INVARIANT C19
CHECK_DEADLOCK FALSE
