----------------------------- MODULE MC_MsmChooser -----------------------------
(***************************************************************************)
(* C09, chooser: for EVERY number of points n <= MaxN and every task count *)
(* of the list, the split loop of MultiExp terminates with an implemented  *)
(* window size, at least `tasks` chunks, and index ranges that partition   *)
(* [0, n) (remainder to the last split).                                   *)
(***************************************************************************)
EXTENDS MSMImpl, TLC
CONSTANTS MaxN, Tasks
VARIABLES nh, nl
n == 64 * nh + nl
Init == nh = 0 /\ nl = 0
Next == \/ nl < 63 /\ 64 * nh + nl + 1 <= MaxN /\ nl' = nl + 1 /\ nh' = nh
        \/ 64 * (nh + 1) + nl <= MaxN /\ nh' = nh + 1 /\ nl' = nl
Spec == Init /\ [][Next]_<<nh, nl>>
ChooserOK ==
  \A t \in Tasks :
    LET r == SplitLoop(256, t, 1, n)
        rg == SplitRanges(n, r)
    IN  /\ \E i \in 1 .. Len(ImplementedCs) : ImplementedCs[i] = r.C
        /\ r.chunks >= t
        /\ rg[1][1] = 0 /\ rg[r.splits][2] = n
        /\ \A i \in 1 .. (r.splits - 1) : rg[i][2] = rg[i + 1][1] /\ rg[i][1] <= rg[i][2]
        /\ rg[r.splits][1] <= n
        \* BestC really is a cost minimum
        /\ \A i \in 1 .. Len(ImplementedCs) : ~CostLess(r.pts, ImplementedCs[i], r.C)
=============================================================================
