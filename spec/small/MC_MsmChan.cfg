CONSTANTS K = 3 Cap = 3 NC = 3 Split = TRUE
SPECIFICATION Spec
INVARIANT Result
PROPERTY Returns
CHECK_DEADLOCK FALSE
