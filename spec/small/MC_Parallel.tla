------------------------------ MODULE MC_Parallel ------------------------------
(***************************************************************************)
(* C20, part 1: for EVERY iteration count n in 0..MaxN and worker limit m  *)
(* in 1..MaxM the ranges computed by the code's formula are a correct      *)
(* split (disjoint, non-empty, in bounds, covering [0,n), at most          *)
(* min(n,m) of them).  The (n, m) grid is walked by Next so that TLC's     *)
(* workers share it.                                                       *)
(***************************************************************************)
EXTENDS Parallel, TLC
CONSTANTS MaxN, MaxM
VARIABLES n, m
Init == n = 0 /\ m = 1
Next == \/ n < MaxN /\ n' = n + 1 /\ m' = m
        \/ m < MaxM /\ m' = m + 1 /\ n' = n
Spec == Init /\ [][Next]_<<n, m>>
SplitOK == IsSplit(n, m, ExecRanges(n, m))
LoopOK  == LoopRanges(n, m) = ExecRanges(n, m)      \* the closed form used by the trace specification is what the loop computes
=============================================================================
