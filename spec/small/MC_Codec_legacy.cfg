CONSTANTS
  WP = 37 WR = 7 WA = 32 WD = 2 WGX = 2 WGY = 16 WNR = 2 WRNR = 3 WDom = 2 WRounds = 1 WCB = 1 WSB = 1
  WHash <- IdHash
  LegacyProbe = TRUE
SPECIFICATION Spec
INVARIANT ReadOK
CHECK_DEADLOCK FALSE
