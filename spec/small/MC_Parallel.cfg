CONSTANTS MaxN = 2048 MaxM = 300
SPECIFICATION Spec
INVARIANT SplitOK
CHECK_DEADLOCK FALSE
