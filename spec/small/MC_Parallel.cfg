CONSTANTS MaxN = 2048 MaxM = 300
SPECIFICATION Spec
INVARIANT SplitOK
INVARIANT LoopOK
CHECK_DEADLOCK FALSE
