CONSTANTS MaxN = 8192 Tasks = {1, 2, 3, 4, 5, 6, 7, 8, 9, 10, 11, 12, 13, 14, 15, 16, 17, 24, 31, 32, 33, 48, 63, 64, 65, 96, 127, 128, 255, 256, 257, 1024}
SPECIFICATION Spec
INVARIANT ChooserOK
CHECK_DEADLOCK FALSE
