------------------------------- MODULE MC_Mont -------------------------------
(***************************************************************************)
(* Small-world model of the scalar-field machine arithmetic (C15).         *)
(* The code's word-serial algorithms are transcribed for a machine with    *)
(* NL limbs of WB bits and a modulus MM whose top bit is clear (like r in   *)
(* 4 x 64 bits), and checked against module Field (integers mod MM) for    *)
(* EVERY operand pair:                                                     *)
(*   - Montgomery multiplication, CIOS with the "no-carry" last column     *)
(*     (fr/_mulGeneric; madd0..madd3 of fr/arith.go)                       *)
(*   - _fromMontGeneric, _addGeneric, _doubleGeneric, _subGeneric,          *)
(*     _negGeneric with their final conditional subtraction                *)
(*   - BatchInvert (prefix products, zeros skipped)                        *)
(*   - Inverse: the binary u,v,r,s loop as a state machine (one loop       *)
(*     iteration per step), for every x                                    *)
(* Words are TLA+ integers kept in 0 .. B-1; every intermediate is checked *)
(* to fit its register (Fit), which is where the dependency on the clear   *)
(* top bit of the modulus shows.                                           *)
(***************************************************************************)
EXTENDS Field, TLC, FiniteSets

CONSTANTS WB, NL, MM

B     == 2 ^ WB
RR    == (B ^ NL) % MM                      \* Montgomery radix R mod MM
Rinv  == FInv(MM, RR)
QInvNeg == CHOOSE k \in 0 .. (B - 1) : (k * MM + 1) % B = 0
Limbs(v) == [j \in 1 .. NL |-> (v \div (B ^ (j - 1))) % B]
Val(ws)  == FoldLeft(LAMBDA acc, j : acc + ws[j] * (B ^ (j - 1)), 0, FIdx(NL))
Q == Limbs(MM)

ASSUME MM < B ^ NL \div 2          \* top bit clear
ASSUME MM % 2 = 1

(* arith.go; each returns <<hi, lo>>; Fit asserts the claimed absence of overflow *)
Fit(v) == IF v < B * B THEN v ELSE Assert(FALSE, <<"register overflow", v>>)
FitN(w0) == IF w0 < B ^ NL THEN w0 ELSE Assert(FALSE, <<"element overflow", w0>>)       \* a full NL-word value (Fit is the two-word register of the multiply-add helpers)
Madd0(a, b, c)       == Fit(a * b + c) \div B
Madd1(a, b, c)       == LET v == Fit(a * b + c) IN <<v \div B, v % B>>
Madd2(a, b, c, d)    == LET v == Fit(a * b + c + d) IN <<v \div B, v % B>>
Madd3(a, b, c, d, e) == LET v == Fit(a * b + c + d) IN <<Fit(B * (v \div B + e)) \div B, v % B>>   \* hi + e must fit a word

(* if z >= q then z - q *)
CondSub(z) == IF Val(z) >= MM THEN Limbs(Val(z) - MM) ELSE z

(* one CIOS round for v = x[i]; t as NL words *)
Round(t, v, y) ==
  LET c10 == Madd1(v, y[1], t[1])
      m   == (c10[2] * QInvNeg) % B
      c2  == Madd0(m, Q[1], c10[2])
      \* columns 2 .. NL-1, state <<c1, c2, t>>
      st  == FoldLeft(LAMBDA S, j :
                        LET a == Madd2(v, y[j], S[1], t[j])
                            b == Madd2(m, Q[j], S[2], a[2])
                        IN  <<a[1], b[1], [S[3] EXCEPT ![j - 1] = b[2]]>>,
                      <<c10[1], c2, t>>, [j \in 1 .. (NL - 2) |-> j + 1])
      a   == Madd2(v, y[NL], st[1], t[NL])
      f   == Madd3(m, Q[NL], a[2], st[2], a[1])
  IN  [st[3] EXCEPT ![NL - 1] = f[2], ![NL] = f[1]]
MulGeneric(x, y) == CondSub(FoldLeft(LAMBDA t, i : Round(t, x[i], y), [j \in 1 .. NL |-> 0], FIdx(NL)))

FromMontRound(z) ==
  LET m  == (z[1] * QInvNeg) % B
      c0 == Madd0(m, Q[1], z[1])
      st == FoldLeft(LAMBDA S, j : LET a == Madd2(m, Q[j], S[2][j], S[1]) IN <<a[1], [S[2] EXCEPT ![j - 1] = a[2]]>>,
                     <<c0, z>>, [j \in 1 .. (NL - 1) |-> j + 1])
  IN  [st[2] EXCEPT ![NL] = st[1]]
FromMontGeneric(z) == CondSub(FoldLeft(LAMBDA t, i : FromMontRound(t), z, FIdx(NL)))

AddGeneric(x, y)  == LET s == Val(x) + Val(y) IN CondSub(Limbs(FitN(s) % (B ^ NL)))   \* the carry out of the top word is dropped by the code
AddFits(x, y)     == Val(x) + Val(y) < B ^ NL                                           \* .. which is sound because it is never set
SubGeneric(x, y)  == LET d == Val(x) - Val(y) IN IF d < 0 THEN Limbs(d + MM) ELSE Limbs(d)
NegGeneric(x)     == IF Val(x) = 0 THEN Limbs(0) ELSE Limbs(MM - Val(x))

(* BatchInvert as written: prefix products skipping zeros, one inversion, back-substitution *)
BatchInvertAlg(as) ==
  LET n   == Len(as)
      fw  == FoldLeft(LAMBDA S, i : IF as[i] = 0 THEN <<Append(S[1], 0), S[2]>>
                                    ELSE <<Append(S[1], S[2]), FMul(MM, S[2], as[i])>>,
                      <<<<>>, 1>>, FIdx(n))
      inv == FInv(MM, fw[2])
      bw  == FoldLeft(LAMBDA S, k : LET i == n + 1 - k
                                    IN  IF as[i] = 0 THEN S
                                        ELSE <<[S[1] EXCEPT ![i] = FMul(MM, S[1][i], S[2])], FMul(MM, S[2], as[i])>>,
                      <<fw[1], inv>>, FIdx(n))
  IN  bw[1]

-----------------------------------------------------------------------------
(* state machine: enumerate operand pairs; for each x additionally run the inversion loop *)
VARIABLES x, y, pc, u, v, r, s
vars == <<x, y, pc, u, v, r, s>>

Init == x = 0 /\ y = 0 /\ pc = "pair" /\ u = 0 /\ v = 0 /\ r = 0 /\ s = 0

NextPair == /\ pc = "pair"
            /\ \/ x < MM - 1 /\ x' = x + 1 /\ y' = y
               \/ y < MM - 1 /\ y' = y + 1 /\ x' = x
            /\ UNCHANGED <<pc, u, v, r, s>>
StartInv == /\ pc = "pair" /\ y = 0 /\ x # 0
            /\ pc' = "inv" /\ u' = MM /\ s' = (RR * RR) % MM /\ r' = 0 /\ v' = x
            /\ UNCHANGED <<x, y>>
Half(w, a) == IF w % 2 = 1 THEN FitN(w + MM) \div 2 ELSE w \div 2    \* (w + q) must fit NL words: needs the clear top bit
(* one iteration of the outer loop of Inverse *)
RECURSIVE ShiftV(_, _), ShiftU(_, _)
ShiftV(vv, ss) == IF vv % 2 = 0 THEN ShiftV(vv \div 2, Half(ss, 0)) ELSE <<vv, ss>>
ShiftU(uu, rr) == IF uu % 2 = 0 THEN ShiftU(uu \div 2, Half(rr, 0)) ELSE <<uu, rr>>
InvStep == /\ pc = "inv"
           /\ LET vs == ShiftV(v, s)   ur == ShiftU(u, r)
                  v1 == vs[1]  s1 == vs[2]  u1 == ur[1]  r1 == ur[2]
              IN  IF v1 >= u1
                  THEN /\ v' = v1 - u1 /\ s' = (IF s1 - r1 < 0 THEN s1 - r1 + MM ELSE s1 - r1) /\ u' = u1 /\ r' = r1
                       /\ pc' = IF u1 = 1 \/ v1 - u1 = 1 THEN "done" ELSE "inv"
                  ELSE /\ u' = u1 - v1 /\ r' = (IF r1 - s1 < 0 THEN r1 - s1 + MM ELSE r1 - s1) /\ v' = v1 /\ s' = s1
                       /\ pc' = IF u1 - v1 = 1 \/ v1 = 1 THEN "done" ELSE "inv"
           /\ UNCHANGED <<x, y>>
Next == NextPair \/ StartInv \/ InvStep
Spec == Init /\ [][Next]_vars

InvResult == IF u = 1 THEN r ELSE s
-----------------------------------------------------------------------------
(* refinement of the integer specification, for the current pair *)
Reg(w) == FMul(MM, w, Rinv)
PairOK ==
  pc = "pair" =>
  LET xs == Limbs(x)  ys == Limbs(y)
      mz == MulGeneric(xs, ys)
  IN  /\ Val(mz) < MM /\ Reg(Val(mz)) = FMul(MM, Reg(x), Reg(y))          \* CIOS = x*y/R, reduced
      /\ AddFits(xs, ys)
      /\ Val(AddGeneric(xs, ys)) = FAdd(MM, x, y)
      /\ Val(SubGeneric(xs, ys)) = FSub(MM, x, y)
      /\ (y = 0 => /\ Val(NegGeneric(xs)) = FNeg(MM, x)
                   /\ Val(AddGeneric(xs, xs)) = FDbl(MM, x)
                   /\ Val(FromMontGeneric(xs)) = Reg(x))
      /\ BatchInvertAlg(<<x, y, 0, x>>) = FBatchInv(MM, <<x, y, 0, x>>)
      /\ BatchInvertAlg(<<0, y>>) = FBatchInv(MM, <<0, y>>)
(* the inversion loop keeps its registers in range and returns x^-1 (Montgomery form in, Montgomery form out) *)
InvOK ==
  /\ pc \in {"inv", "done"} => u < B ^ NL /\ v < B ^ NL /\ r < MM /\ s < MM /\ u > 0 /\ v > 0
  /\ pc = "done" => Reg(InvResult) = FInv(MM, Reg(x))
(* the loop always terminates: from "inv" a step is always possible (no deadlock) and u + v strictly decreases *)
Decreases == [][pc = "inv" => u' + v' < u + v]_vars
=============================================================================
