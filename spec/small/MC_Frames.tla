------------------------------- MODULE MC_Frames -------------------------------
(***************************************************************************)
(* Small world for C13: the memory discipline of the polynomial grouping   *)
(* of the prover, with explicit slices.  A HEAP maps slice identities to   *)
(* vectors; the caller's polynomials are slices 1..n (several openings may *)
(* share one slice); every worker allocates fresh slices for its groups;   *)
(* the merge step takes over the first arriving worker slice of an index   *)
(* and accumulates later arrivals into it.  Frame condition: whatever the  *)
(* shape, worker count and arrival order, the caller's slices are bit for  *)
(* bit unchanged and the result slices are disjoint from them.             *)
(* CallerAsAccumulator = TRUE is the mutant of the property text (a worker *)
(* uses the caller's first polynomial of an index as the accumulator): the *)
(* frame condition fails as soon as two openings of one worker share an    *)
(* index (MC_Frames_mutant.cfg).                                           *)
(***************************************************************************)
EXTENDS Integers, Sequences, SequencesExt, FiniteSets, TLC
CONSTANTS MaxN, MaxW, Dom, CallerAsAccumulator
Vec(v) == <<v, v + 1>>                          \* two-entry vectors are enough to see writes
AddV(a, b) == <<a[1] + b[1], a[2] + b[2]>>
ScaleV(k, a) == <<k * a[1], k * a[2]>>

VARIABLES zs, share, W, order, phase
vars == <<zs, share, W, order, phase>>
Init == zs = <<>> /\ share = <<>> /\ W = 0 /\ order = <<>> /\ phase = "shape"
Next ==
  \/ /\ phase = "shape" /\ Len(zs) < MaxN
     /\ \E z \in 0 .. (Dom - 1), s \in 1 .. (Len(zs) + 1) : zs' = Append(zs, z) /\ share' = Append(share, s)   \* opening uses caller slice s
     /\ UNCHANGED <<W, order, phase>>
  \/ /\ phase = "shape" /\ Len(zs) >= 1 /\ \E w \in 1 .. MaxW : W' = w /\ phase' = "sched" /\ UNCHANGED <<zs, share, order>>
  \/ /\ phase = "sched" /\ Len(order) < W
     /\ \E k \in (1 .. W) \ {order[i] : i \in 1 .. Len(order)} : order' = Append(order, k) /\ UNCHANGED <<zs, share, W, phase>>
Spec == Init /\ [][Next]_vars

n == Len(zs)
CallerHeap == [s \in 1 .. n |-> Vec(10 * s)]                         \* slices 1..n belong to the caller
(* one worker; fresh slice ids start at base; returns [heap, grp: index -> slice id or 0, next] *)
Worker(heap0, base, start, end) ==
  FoldLeft(LAMBDA S, i :
             IF i <= start \/ i > end \/ i > n THEN S
             ELSE LET z == zs[i] + 1
                      scaled == ScaleV(i + 1, S.heap[share[i]])
                  IN  IF S.grp[z] = 0
                      THEN IF CallerAsAccumulator
                           THEN [S EXCEPT !.grp[z] = share[i], !.heap[share[i]] = scaled]                    \* mutant: reuse the caller's slice
                           ELSE [S EXCEPT !.grp[z] = S.next, !.heap = S.heap @@ (S.next :> scaled), !.next = S.next + 1]
                      ELSE [S EXCEPT !.heap[S.grp[z]] = AddV(@, scaled)],
           [heap |-> heap0, grp |-> [z \in 1 .. Dom |-> 0], next |-> base], [i \in 1 .. n |-> i])
Run ==
  LET batch == (n + W - 1) \div W
      \* workers run (in any order - they only read caller slices and write their own), then the merge in arrival order
      ws == FoldLeft(LAMBDA S, k : LET r == Worker(S.heap, S.next, (k - 1) * batch, k * batch)
                                   IN  [heap |-> r.heap, next |-> r.next, grps |-> Append(S.grps, r.grp)],
                     [heap |-> CallerHeap, next |-> n + 1, grps |-> <<>>], [k \in 1 .. W |-> k])
  IN  FoldLeft(LAMBDA S, k : LET g == ws.grps[order[k]] IN
                 FoldLeft(LAMBDA T, z : IF g[z] = 0 THEN T
                                        ELSE IF T.res[z] = 0 THEN [T EXCEPT !.res[z] = g[z]]                      \* take the slice over
                                        ELSE [T EXCEPT !.heap[T.res[z]] = AddV(@, T.heap[g[z]])],
                          S, [z \in 1 .. Dom |-> z]),
               [heap |-> ws.heap, res |-> [z \in 1 .. Dom |-> 0]], [k \in 1 .. W |-> k])
Frame == (phase = "sched" /\ Len(order) = W) =>
  LET r == Run IN
  /\ \A s \in 1 .. n : r.heap[s] = CallerHeap[s]                         \* caller's polynomials untouched
  /\ \A z \in 1 .. Dom : r.res[z] = 0 \/ r.res[z] > n                    \* results live in fresh slices
  /\ \A z \in 1 .. Dom : (r.res[z] # 0) <=> (\E i \in 1 .. n : zs[i] + 1 = z)
  /\ \A z \in 1 .. Dom : r.res[z] # 0 =>
        r.heap[r.res[z]] = FoldLeft(LAMBDA acc, i : IF zs[i] + 1 = z THEN AddV(acc, ScaleV(i + 1, CallerHeap[share[i]])) ELSE acc, <<0, 0>>, [i \in 1 .. n |-> i])
=============================================================================
