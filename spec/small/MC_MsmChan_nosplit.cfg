CONSTANTS K = 2 Cap = 3 NC = 4 Split = FALSE
SPECIFICATION Spec
INVARIANT Result
PROPERTY Returns
CHECK_DEADLOCK FALSE
