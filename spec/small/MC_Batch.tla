------------------------------- MODULE MC_Batch -------------------------------
(***************************************************************************)
(* Small world for C19: a heap of 3 cells drawn from a palette of          *)
(* representations (identity in both sign forms, Z = 1, Z # 1, the other   *)
(* class member, the same element twice with different Z, one cell that    *)
(* cannot be normalised) and EVERY pointer list of length 0..4 over it,    *)
(* i.e. every aliasing pattern.  Checked: batch = single position-wise;    *)
(* after BatchNormalize Z = 1 and the element is unchanged; on error the   *)
(* heap is untouched; independent of the de-duplication order.  With       *)
(* Dedupe = FALSE the invariant fails (MC_Batch_nodedupe.cfg): the pointer *)
(* de-duplication is load-bearing.                                         *)
(***************************************************************************)
EXTENDS Batch, TLC

CONSTANT Dedupe
IdHash(bs) == bs
G1 == <<WGX, WGY, N1>>
Palette == << <<0, 1, 1>>, <<0, WP - 1, 1>>, G1, <<(2 * WGX) % WP, (2 * WGY) % WP, 2>>, <<WP - WGX, WP - WGY, 1>>,
              IDouble(G1), <<(5 * WGX) % WP, (5 * WGY) % WP, 5>>, <<WGX, WGY, 0>> >>
Cells == 1 .. 3
PtrLists == UNION {[1 .. n -> Cells] : n \in 0 .. 4}

VARIABLES heap, ptrs
Init == heap \in [Cells -> {Palette[k] : k \in 1 .. Len(Palette)}] /\ ptrs \in PtrLists
Next == UNCHANGED <<heap, ptrs>>
Spec == Init /\ [][Next]_<<heap, ptrs>>

Used == {ptrs[i] : i \in DOMAIN ptrs}
Orders == {o \in [1 .. Cardinality(Used) -> Used] : \A i, j \in DOMAIN o : i # j => o[i] # o[j]}
Normalisable == \A c \in Used : heap[c][3] # 0
C19 ==
  /\ \A o \in Orders :
       LET r == BNormalize(heap, ptrs, Dedupe, o) IN
       IF ~Normalisable THEN r.err /\ r.heap = heap
       ELSE /\ ~r.err
            /\ \A c \in Cells : IF c \in Used THEN r.heap[c][3] = 1 /\ IAff(r.heap[c]) = IAff(heap[c]) ELSE r.heap[c] = heap[c]
  /\ Normalisable =>
       /\ BElementsToBytes(heap, ptrs) = [i \in DOMAIN ptrs |-> IBytes(heap[ptrs[i]])]
       /\ BElementsToBytes(heap, ptrs) = [i \in DOMAIN ptrs |-> EEnc(IAff(heap[ptrs[i]]))]
       /\ BToBytesUncompressed(heap, ptrs) = [i \in DOMAIN ptrs |-> IBytesUncompressed(heap[ptrs[i]])]
       /\ BMapToScalar(heap, ptrs) = [i \in DOMAIN ptrs |-> EMapToScalar(IAff(heap[ptrs[i]]))]
       /\ \A i \in DOMAIN ptrs : EDecUncompressedTrusted(BToBytesUncompressed(heap, ptrs)[i]) = IAff(heap[ptrs[i]])
=============================================================================
