------------------------------ MODULE MC_Codec8 ------------------------------
(***************************************************************************)
(* Small world for C16: one-byte scalars modulo WR, every byte string of   *)
(* length 0..2 and a boundary palette at length 3.  Checked for every      *)
(* string: round trips, reduction, exact canonical acceptance, frame       *)
(* (buffer unchanged) and idempotence of decoding the same buffer twice.   *)
(* With CopyFirst = FALSE (the code before the repair of the C16 finding)  *)
(* the frame invariant is violated - see MC_Codec8_inplace.cfg.            *)
(***************************************************************************)
EXTENDS ScalarCodec, TLC

CONSTANT CopyFirst
IdHash(bs) == bs
Pal == {0, 1, WR - 1, WR, WR + 1, 255}
Strings == {<<>>} \cup {<<a>> : a \in 0 .. 255} \cup {<<a, b>> : a \in 0 .. 255, b \in 0 .. 255}
           \cup {<<a, b, c>> : a \in Pal, b \in Pal, c \in Pal}

VARIABLES buf, phase, r1, r2
vars == <<buf, phase, r1, r2>>
Nil == [buf |-> <<>>, ok |-> FALSE, val |-> 0]
Init == buf \in Strings /\ phase = 0 /\ r1 = Nil /\ r2 = Nil
(* decode the same buffer twice, with each decoder *)
Dec1 == phase = 0 /\ phase' = 1 /\ r1' = SImplSetBytesLE(buf, CopyFirst) /\ buf' = r1'.buf /\ UNCHANGED r2
Dec2 == phase = 1 /\ phase' = 2 /\ r2' = SImplSetBytesLE(buf, CopyFirst) /\ buf' = r2'.buf /\ UNCHANGED r1
Can1 == phase = 0 /\ phase' = 11 /\ r1' = SImplSetBytesLECanonical(buf, CopyFirst) /\ buf' = r1'.buf /\ UNCHANGED r2
Can2 == phase = 11 /\ phase' = 12 /\ r2' = SImplSetBytesLECanonical(buf, CopyFirst) /\ buf' = r2'.buf /\ UNCHANGED r1
Next == Dec1 \/ Dec2 \/ Can1 \/ Can2
Spec == Init /\ [][Next]_vars

(* frame: no decoder changes the caller's buffer *)
Frame == [][buf' = buf]_vars
(* the implementation shape computes the specified function of the ORIGINAL string *)
Refines ==
  /\ phase = 1  => r1.val = SDecReduceLE(buf)
  /\ phase = 2  => r2 = r1
  /\ phase = 11 => r1.ok = SCanonAccepts(buf) /\ (r1.ok => r1.val = NFromBytesLE(buf))
  /\ phase = 12 => r2 = r1
RoundTrip == \A s \in 0 .. (WR - 1) :
               /\ SDecReduceLE(SEncLE(s)) = s /\ SDecReduceBE(SEncBE(s)) = s
               /\ SDecCanonLE(SEncLE(s)) = <<TRUE, s>>
Exact == phase = 0 => (SCanonAccepts(buf) <=> NFromBytesLE(buf) < WR)
ASSUME RoundTrip
=============================================================================
