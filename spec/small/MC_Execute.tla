------------------------------ MODULE MC_Execute ------------------------------
(***************************************************************************)
(* C20, part 2: parallel.Execute as concurrent processes (PlusCal).  The   *)
(* main goroutine adds to the WaitGroup and spawns one goroutine per       *)
(* range, then waits; every goroutine runs the work function on its range  *)
(* and calls Done.  All interleavings for n <= MaxN, m <= MaxM:            *)
(*   - Execute returns only after every invocation has returned            *)
(*   - every index of [0, n) has been processed exactly once at return     *)
(*   - no deadlock                                                         *)
(* EarlyDone = TRUE models wg.Done() before the work (a too-early return   *)
(* becomes possible): the invariant fails (MC_Execute_early.cfg).          *)
(***************************************************************************)
EXTENDS Parallel, TLC
CONSTANTS MaxN, MaxM, EarlyDone

(* --algorithm Execute {
  variables n \in 0 .. MaxN, m \in 1 .. MaxM,
            ranges = ExecRanges(n, m),
            wg = 0, spawned = 0, returned = FALSE,
            hits = [i \in 0 .. (MaxN - 1) |-> 0],     \* how often index i was processed
            finished = {};                             \* invocations that have returned
  fair process (main = 0) {
    spawn: while (spawned < Len(ranges)) {
             wg := wg + 1;
    go:      spawned := spawned + 1;
           };
    wait:  await wg = 0;
    ret:   returned := TRUE;
  }
  fair process (task \in 1 .. MaxM) {
    start: await spawned >= self;
           if (EarlyDone) { wg := wg - 1; };
    work:  hits := [i \in 0 .. (MaxN - 1) |-> IF ranges[self][1] <= i /\ i < ranges[self][2] THEN hits[i] + 1 ELSE hits[i]];
    fin:   finished := finished \cup {self};
           if (~EarlyDone) { wg := wg - 1; };
  }
} *)
\* BEGIN TRANSLATION
VARIABLES pc, n, m, ranges, wg, spawned, returned, hits, finished

vars == << pc, n, m, ranges, wg, spawned, returned, hits, finished >>

ProcSet == {0} \cup (1 .. MaxM)

Init == (* Global variables *)
        /\ n \in 0 .. MaxN
        /\ m \in 1 .. MaxM
        /\ ranges = ExecRanges(n, m)
        /\ wg = 0
        /\ spawned = 0
        /\ returned = FALSE
        /\ hits = [i \in 0 .. (MaxN - 1) |-> 0]
        /\ finished = {}
        /\ pc = [self \in ProcSet |-> CASE self = 0 -> "spawn"
                                        [] self \in 1 .. MaxM -> "start"]

spawn == /\ pc[0] = "spawn"
         /\ IF spawned < Len(ranges)
               THEN /\ wg' = wg + 1
                    /\ pc' = [pc EXCEPT ![0] = "go"]
               ELSE /\ pc' = [pc EXCEPT ![0] = "wait"]
                    /\ wg' = wg
         /\ UNCHANGED << n, m, ranges, spawned, returned, hits, finished >>

go == /\ pc[0] = "go"
      /\ spawned' = spawned + 1
      /\ pc' = [pc EXCEPT ![0] = "spawn"]
      /\ UNCHANGED << n, m, ranges, wg, returned, hits, finished >>

wait == /\ pc[0] = "wait"
        /\ wg = 0
        /\ pc' = [pc EXCEPT ![0] = "ret"]
        /\ UNCHANGED << n, m, ranges, wg, spawned, returned, hits, finished >>

ret == /\ pc[0] = "ret"
       /\ returned' = TRUE
       /\ pc' = [pc EXCEPT ![0] = "Done"]
       /\ UNCHANGED << n, m, ranges, wg, spawned, hits, finished >>

main == spawn \/ go \/ wait \/ ret

start(self) == /\ pc[self] = "start"
               /\ spawned >= self
               /\ IF EarlyDone
                     THEN /\ wg' = wg - 1
                     ELSE /\ TRUE
                          /\ wg' = wg
               /\ pc' = [pc EXCEPT ![self] = "work"]
               /\ UNCHANGED << n, m, ranges, spawned, returned, hits, finished >>

work(self) == /\ pc[self] = "work"
              /\ hits' = [i \in 0 .. (MaxN - 1) |-> IF ranges[self][1] <= i /\ i < ranges[self][2] THEN hits[i] + 1 ELSE hits[i]]
              /\ pc' = [pc EXCEPT ![self] = "fin"]
              /\ UNCHANGED << n, m, ranges, wg, spawned, returned, finished >>

fin(self) == /\ pc[self] = "fin"
             /\ finished' = (finished \cup {self})
             /\ IF ~EarlyDone
                   THEN /\ wg' = wg - 1
                   ELSE /\ TRUE
                        /\ wg' = wg
             /\ pc' = [pc EXCEPT ![self] = "Done"]
             /\ UNCHANGED << n, m, ranges, spawned, returned, hits >>

task(self) == start(self) \/ work(self) \/ fin(self)

(* Allow infinite stuttering to prevent deadlock on termination. *)
Terminating == /\ \A self \in ProcSet: pc[self] = "Done"
               /\ UNCHANGED vars

Next == main
           \/ (\E self \in 1 .. MaxM: task(self))
           \/ Terminating

Spec == /\ Init /\ [][Next]_vars
        /\ WF_vars(main)
        /\ \A self \in 1 .. MaxM : WF_vars(task(self))

Termination == <>(\A self \in ProcSet: pc[self] = "Done")

\* END TRANSLATION

JoinOK == returned => /\ finished = 1 .. Len(ranges)
                      /\ \A i \in 0 .. (MaxN - 1) : hits[i] = (IF i < n THEN 1 ELSE 0)
(* under fair scheduling Execute always returns: no deadlock, no lost wake-up *)
Returns == <>returned
NeverTwice == \A i \in 0 .. (MaxN - 1) : hits[i] <= 1
=============================================================================
