---------------------------- MODULE MC_MsmPartition ----------------------------
(***************************************************************************)
(* C09, partition: a machine of NLimb limbs of LB bits (2 x 8: 16-bit      *)
(* scalars, modulus 8191; 3 x 8: 24-bit scalars) whose modulus has three    *)
(* clear top bits like r in 256 bits.  For EVERY scalar below MM and every *)
(* window width c in Cs (c = 3, 5, 6, 7 do not divide the limb: two-limb   *)
(* select):                                                                *)
(*   - the signed digits reconstruct the scalar, |digit| <= 2^(c-1)        *)
(*   - no carry is left after the last chunk                               *)
(*   - reading the encoded words back chunk by chunk (as the bucket        *)
(*     accumulation does) gives the same digits                            *)
(*   - the digit of the last, smaller window fits its bucket array of      *)
(*     2^(lastC-1) entries                                                 *)
(*   - the bucket method (accumulate, running-sum reduce, c doublings per  *)
(*     chunk) on the abstract group Z_Ord computes s*P                     *)
(***************************************************************************)
EXTENDS MSMImpl, TLC
CONSTANTS MM, Cs, Ord, LB, NLimb
ASSUME \A c \in Cs : c <= LB        \* a window spans at most two limbs, as in the code (c <= 21 < 64)
Limbs(v) == [j \in 1 .. NLimb |-> (v \div MP2(LB * (j - 1))) % MP2(LB)]
(* the scalar s = 1024 * hi + lo is walked in two coordinates so that the frontier is wide and TLC's workers share it *)
VARIABLES hi, lo
s == 1024 * hi + lo
Init == hi = 0 /\ lo = 0
Next == \/ lo < 1023 /\ 1024 * hi + lo + 1 < MM /\ lo' = lo + 1 /\ hi' = hi
        \/ 1024 * (hi + 1) + lo < MM /\ hi' = hi + 1 /\ lo' = lo
Spec == Init /\ [][Next]_<<hi, lo>>
(* bucket method for one point P (an integer mod Ord standing for a group element) *)
ChunkTotal(bits, c, P, nbuckets) ==
  LET bucket == [k \in 1 .. nbuckets |-> IF bits = 0 THEN 0
                                          ELSE IF bits < MP2(c - 1) THEN (IF k = bits THEN P ELSE 0)
                                          ELSE (IF k = (bits - MP2(c - 1)) + 1 THEN Ord - P ELSE 0)]
      rs == FoldLeft(LAMBDA S, kk : LET k == nbuckets + 1 - kk  run == (S[1] + bucket[k]) % Ord IN <<run, (S[2] + run) % Ord>>,
                     <<0, 0>>, [k \in 1 .. nbuckets |-> k])
  IN  rs[2]
PartitionOK ==
  \A c \in Cs :
    LET r  == Partition(Limbs(s), c, LB, NLimb)
        nb == NbChunks(LB * NLimb, c)
        lastC == (LB * NLimb) - c * ((LB * NLimb) \div c)
        val == FoldLeft(LAMBDA acc, k : acc + r.digits[k] * MP2(c * (k - 1)), 0, [k \in 1 .. nb |-> k])
        rd(k) == ReadBits(r.words, k - 1, c, LB, NLimb)
        nbk(k) == IF k = nb /\ lastC # 0 THEN MP2(lastC - 1) ELSE MP2(c - 1)
        totals == [k \in 1 .. nb |-> ChunkTotal(rd(k), c, 5, nbk(k))]
        \* msmReduceChunk: Horner from the top chunk, c doublings per step
        res == FoldLeft(LAMBDA acc, kk : LET k == nb - kk IN (acc * MP2(c) + totals[k]) % Ord, totals[nb], [kk \in 1 .. (nb - 1) |-> kk])
    IN  /\ val = s /\ r.carry = 0
        /\ \A k \in 1 .. nb : r.digits[k] <= MP2(c - 1) /\ r.digits[k] >= 0 - MP2(c - 1) /\ DecodeBits(rd(k), c) = r.digits[k]
        /\ \A k \in 1 .. NLimb : r.words[k] < MP2(LB)
        /\ (lastC # 0 => LET b == rd(nb) IN b = 0 \/ (b < MP2(c - 1) /\ b <= MP2(lastC - 1)) \/ (b >= MP2(c - 1) /\ (b - MP2(c - 1)) + 1 <= MP2(lastC - 1)))
        /\ res = (s * 5) % Ord
=============================================================================
