CONSTANTS
  WP = 257 WR = 71 WA = 252 WD = 12 WGX = 7 WGY = 46 WNR = 3 WRNR = 7 WDom = 4 WRounds = 2 WCB = 2 WSB = 1
  WHash <- IdHash
  SS = 8 BSz = 2 NBl = 4
SPECIFICATION Spec
INVARIANTS SqrtOK PointOK
CHECK_DEADLOCK FALSE
