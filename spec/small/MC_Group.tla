------------------------------- MODULE MC_Group -------------------------------
(***************************************************************************)
(* Small-world API model of banderwagon.Element (C07, C08, C11): a pool of *)
(* NSlots elements held as RAW PROJECTIVE TRIPLES, driven through the      *)
(* code's own formulas (module EdwardsImpl) with every receiver/operand    *)
(* aliasing, plus representation changes that preserve the element         *)
(* (projective rescaling, the other member (-x,-y) of the class).          *)
(* Exhaustive over every reachable combination of representations.         *)
(*                                                                         *)
(* Checked in every state, for all slots i, j:                             *)
(*   validity    Z # 0, on curve, in the subgroup where 1 - a x^2 is a QR  *)
(*   C07         Equal(i,j) <=> Bytes(i) = Bytes(j) <=> same class;        *)
(*               Bytes = specification encoding; decoding the encoding     *)
(*               succeeds and gives the same class; never Equal to the     *)
(*               all-zero value                                            *)
(*   C11         x/y computed on raw X, Y equals the specification's map   *)
(*               and separates classes exactly                             *)
(* Checked on every transition (C08): the formula applied to raw triples   *)
(* gives exactly the affine group law on the represented points.           *)
(***************************************************************************)
EXTENDS EdwardsImpl, TLC, FiniteSets

CONSTANTS NSlots, Lambdas, Scalars, ZSet
IdHash(bs) == bs
Gen == <<WGX, WGY, N1>>

VARIABLES slot
vars == <<slot>>
S == 1 .. NSlots

Init == slot = [i \in S |-> Gen]
(* C08 refinement is checked ON THE TRANSITION: the formula applied to the raw triples must give exactly
   the specified affine point `want` (decode: a member of the class).  A history variable would multiply
   the state space; the assertion fails the run just the same. *)
Put(d, v, op, want) ==
  /\ Assert(IF op = "decode" THEN EEq(IAff(v), want) ELSE IAff(v) = want, <<"C08 refinement fails", op, d, slot, v, want>>)
  /\ slot' = [slot EXCEPT ![d] = v]

Add(d, a, b)  == Put(d, IAdd(slot[a], slot[b]), "add", EAdd(IAff(slot[a]), IAff(slot[b])))
Sub(d, a, b)  == Put(d, ISub(slot[a], slot[b]), "sub", ESub(IAff(slot[a]), IAff(slot[b])))
Dbl(d, a)     == Put(d, IDouble(slot[a]), "double", EDbl(IAff(slot[a])))
Neg(d, a)     == Put(d, INeg(slot[a]), "neg", ENeg(IAff(slot[a])))
Mixed(d, a, b) == Put(d, IMixedAdd(slot[a], IAff(slot[b])), "addmixed", EAdd(IAff(slot[a]), IAff(slot[b])))
SetId(d)      == Put(d, IIdentity, "setidentity", EId)
Norm(d)       == Put(d, INormalize(slot[d]), "normalize", IAff(slot[d]))
Mul(d, a, k)  == Put(d, IMulWindowed(k, slot[a]), "scalarmul", EMul(k, IAff(slot[a])))
Rescale(d, l) == Put(d, <<FMul(WP, slot[d][1], l), FMul(WP, slot[d][2], l), FMul(WP, slot[d][3], l)>>, "rescale", IAff(slot[d]))
Flip(d)       == Put(d, <<FNeg(WP, slot[d][1]), FNeg(WP, slot[d][2]), slot[d][3]>>, "flip", ETors(IAff(slot[d])))
Dec(d, a)     == LET r == EDec(IBytes(slot[a]))
                 IN  Put(d, <<r[2][1], r[2][2], N1>>, "decode", IF r[1] THEN r[2] ELSE <<N0, N0>>)

Next == \/ \E d \in S, a \in S, b \in S : Add(d, a, b) \/ Sub(d, a, b) \/ Mixed(d, a, b)
        \/ \E d \in S, a \in S : Dbl(d, a) \/ Neg(d, a) \/ Dec(d, a)
        \/ \E d \in S : SetId(d) \/ Norm(d) \/ Flip(d)
        \/ \E d \in S, l \in Lambdas : Rescale(d, l)
        \/ \E d \in S, a \in S, k \in Scalars : Mul(d, a, k)
Spec == Init /\ [][Next]_vars

-----------------------------------------------------------------------------
(* state constraint of the quick tier: only representations whose Z lies in ZSet are explored further *)
ZBound == \A i \in S : slot[i][3] \in ZSet
Valid == \A i \in S : IValid(slot[i])
C07 == \A i \in S, j \in S :
         LET p == slot[i]  q == slot[j]  pa == IAff(p)  qa == IAff(q)
         IN  /\ IEqual(p, q) = EEq(pa, qa)
             /\ (IBytes(p) = IBytes(q)) = EEq(pa, qa)
             /\ IBytes(p) = EEnc(pa)
             /\ EEqCross(pa, qa) = EEq(pa, qa)
             /\ EDec(IBytes(p))[1] /\ EEq(EDec(IBytes(p))[2], pa)
             /\ EDecAccepts(IBytes(p))
             /\ ~IEqual(IZero, p) /\ ~IEqual(p, IZero)
C11 == \A i \in S, j \in S :
         LET p == slot[i]  q == slot[j]
         IN  /\ IMapToField(p) = EMapToField(IAff(p))
             /\ (IMapToField(p) = IMapToField(q)) = EEq(IAff(p), IAff(q))
(* group laws on the represented points (C08): representation-independent, so checked once over all
   affine points of the subgroup of order 2*WR and all scalars *)
SubgroupPts == {P \in (0 .. WP - 1) \X (0 .. WP - 1) : EValid(P)}
Laws == \A P \in SubgroupPts :
          /\ EEq(ESub(P, P), EId) /\ EAdd(P, EId) = P
          /\ EEq(EMul(WR, P), EId) /\ EMul(N0, P) = EId
          /\ \A Q \in SubgroupPts :
                /\ EAddDefined(P, Q) /\ EValid(EAdd(P, Q)) /\ EAdd(P, Q) = EAdd(Q, P)
                /\ \A s \in 0 .. (WR - 1) : EMul(s, EAdd(P, Q)) = EAdd(EMul(s, P), EMul(s, Q))
          /\ \A s \in 0 .. (WR - 1), t \in 0 .. (WR - 1) :
                EMul(FAdd(WR, s, t), P) \in {EAdd(EMul(s, P), EMul(t, P)), ETors(EAdd(EMul(s, P), EMul(t, P)))}
ASSUME Cardinality(SubgroupPts) = 2 * WR
ASSUME Laws
=============================================================================
