CONSTANTS K = 3 Cap = 2 NC = 2 Split = FALSE
SPECIFICATION Spec
INVARIANT Result
PROPERTY Returns
CHECK_DEADLOCK FALSE
