CONSTANTS LimbBits = 8 NLimb = 2 MM = 29501 WSizes = {2, 4, 8}
SPECIFICATION Spec
INVARIANT RecodeOK
CHECK_DEADLOCK FALSE
