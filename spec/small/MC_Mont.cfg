CONSTANTS WB = 4 NL = 2 MM = 113
SPECIFICATION Spec
INVARIANTS PairOK InvOK
PROPERTY Decreases
CHECK_DEADLOCK FALSE
