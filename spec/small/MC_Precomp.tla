------------------------------ MODULE MC_Precomp ------------------------------
(***************************************************************************)
(* Small world for C05 (W73: scalar field F_17 on a machine of 2 limbs of  *)
(* 4 bits): the table-based fixed-base multiplication of precomp.go -      *)
(* tables of (j+1) * 2^(ws*k) * G as normalised extended points, signed    *)
(* recoding, mixed extended addition with a = -5 - computes s*G for EVERY  *)
(* scalar s, EVERY subgroup point G and both window sizes; and the mixed   *)
(* extended addition refines the affine law for every accumulator          *)
(* representation reachable from the identity.                             *)
(***************************************************************************)
EXTENDS EdwardsImpl, PedersenImpl, TLC
IdHash(bs) == bs
SubgroupPts == {P \in (0 .. WP - 1) \X (0 .. WP - 1) : EValid(P)}
Table(G, ws, k, j) == IExtOfAffine(EMul(j * PP2(ws * k), G))          \* entry j (1-based) of window k
ExtAff(q) == EFromProj(q[1], q[2], q[3])
ScalarMulTable(G, s, ws) ==
  LET acc == PRecode(s, 4, 2, ws)[1]
  IN  FoldLeft(LAMBDA res, a : LET e == Table(G, ws, a[1], a[2]) IN IExtAddNormalized(res, IF a[3] THEN IExtNeg(e) ELSE e),
               IExtIdentity, acc)
VARIABLE G
Init == G \in SubgroupPts
Next == UNCHANGED G
Spec == Init /\ [][Next]_G
MulOK == \A s \in 0 .. (WR - 1), ws \in {2, 4} :
           LET r == ScalarMulTable(G, s, ws) IN
           /\ r[3] # 0 /\ ExtAff(r) = EMul(s, G)
           /\ r[4] = FMul(WP, FMul(WP, r[1], r[2]), FInv(WP, r[3]))          \* T = XY/Z kept consistent
           /\ FMul(WP, Table(G, ws, 0, 1)[1], Table(G, ws, 0, 1)[2]) = Table(G, ws, 0, 1)[3]
=============================================================================
