-------------------------------- MODULE MC_Sqrt --------------------------------
(***************************************************************************)
(* Small worlds for C17 (F_193: 3 blocks of 2 bits, odd part 3; F_257:     *)
(* 4 blocks of 2 bits - the code's block count): for EVERY v in F_p        *)
(*   - the table algorithm returns "none" exactly for non-residues and     *)
(*     otherwise a root whose square is v (0 for 0)                        *)
(*   - Tonelli-Shanks (the specification's way to compute roots at real    *)
(*     size, Field!FSqrt) does the same                                    *)
(*   - point recovery from x (Edwards!EYFromX): none exactly when no curve *)
(*     point has this x, else the point with the larger / smaller root     *)
(*   - the small-subgroup lookup is well defined (2^BS distinct roots)     *)
(***************************************************************************)
EXTENDS SqrtTable, Edwards, TLC, FiniteSets
CONSTANTS SS, BSz, NBl
IdHash(bs) == bs
G == NPowMod(WNR, NShr(NSub(WP, N1), SS), WP)          \* primitive 2^SS-th root of unity
VARIABLE v
Init == v = 0
Next == v < WP - 1 /\ v' = v + 1
Spec == Init /\ [][Next]_v

HasRoot(x) == \E s \in 0 .. (WP - 1) : (s * s) % WP = x
SqrtOK ==
  LET t == SqrtTableAlg(WP, G, SS, BSz, NBl, v)
      s == FSqrt(WP, WNR, v)
  IN  /\ t[1] = HasRoot(v) /\ (t[1] => FIsSqrt(WP, v, t[2]))
      /\ s[1] = HasRoot(v) /\ (s[1] => FIsSqrt(WP, v, s[2]))
      /\ FIsQR(WP, v) = HasRoot(v)
PointOK ==
  \A largest \in BOOLEAN :
    LET r == EYFromX(v, largest)
        ys == {y \in 0 .. (WP - 1) : EOnCurve(<<v, y>>)}
    IN  /\ r[1] = (ys # {})
        /\ (r[1] => /\ r[2] \in ys
                    /\ \A y \in ys : IF largest THEN y <= r[2] ELSE y >= r[2]
                    /\ FLexLargest(WP, r[2]) = (largest /\ r[2] # 0))
ASSUME NPowMod(G, SqPow2(SS - 1), WP) = WP - 1                     \* G has order exactly 2^SS
ASSUME Cardinality({NPowMod(G, k * SqPow2(SS - BSz), WP) : k \in 0 .. (SqPow2(BSz) - 1)}) = SqPow2(BSz)
=============================================================================
