CONSTANTS
  WP = 37 WR = 7 WA = 32 WD = 2 WGX = 2 WGY = 16 WNR = 2 WRNR = 3 WDom = 4 WRounds = 2 WCB = 1 WSB = 1
  WHash <- IdHash
  NSlots = 2
  Lambdas = {2}
  Scalars = {0, 3, 6}
  ZSet = {1,2,3,4,5,6,7,8,9,10,11,12,13,14,15,16,17,18,19,20,21,22,23,24,25,26,27,28,29,30,31,32,33,34,35,36}
SPECIFICATION Spec
INVARIANTS Valid C07 C11
CONSTRAINT ZBound
CHECK_DEADLOCK FALSE
