CONSTANTS MaxN = 5 MaxM = 3 EarlyDone = FALSE
SPECIFICATION Spec
INVARIANTS JoinOK NeverTwice
CHECK_DEADLOCK FALSE
PROPERTY Returns
