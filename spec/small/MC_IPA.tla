--------------------------------- MODULE MC_IPA ---------------------------------
(***************************************************************************)
(* Small world for C04 (W73: F_17, domain {0..3}; W97: F_29, domain        *)
(* {0..7}): for EVERY evaluation point of the scalar field (in the domain, *)
(* at the boundary WDom-1 | WDom, up to WR-1) and every polynomial of a    *)
(* palette                                                                 *)
(*   - the prover's claimed value <a, b> is p(point), p the interpolating  *)
(*     polynomial evaluated in coefficient (Newton) form; inside the       *)
(*     domain it is the evaluation itself; the b-vector switches from unit *)
(*     vector to Lagrange coefficients exactly between WDom-1 and WDom     *)
(*   - the proof is accepted for that value (under the side conditions on  *)
(*     the challenges, see MC_Proofs)                                      *)
(*   - for EVERY claimed result in the field the optimised verifier of the *)
(*     code returns the textbook verifier's verdict                        *)
(* "Every other result is rejected" is not claimed here: in a 17-element   *)
(* field a wrong result is accepted with probability about 1/17 because    *)
(* the challenges change with the claimed value; it is decided at real     *)
(* size against the reference verifier.                                    *)
(***************************************************************************)
EXTENDS ProofImpl, TLC
ToyHash(bs) == LET h == FoldLeft(LAMBDA acc, x : (acc * 31 + x + 1) % 65521, 7, bs) IN <<h % 256, h \div 256>>
G1 == <<WGX, WGY>>
Basis == [i \in 1 .. WDom |-> EMul(i + 1, G1)]
Cfg == [G |-> Basis, Q |-> G1]
AP  == PAprimeVec
PolyPal == << [i \in 1 .. WDom |-> 0], [i \in 1 .. WDom |-> 5], [i \in 1 .. WDom |-> IF i = WDom THEN 1 ELSE 0],
              [i \in 1 .. WDom |-> WR - 1], [i \in 1 .. WDom |-> (3 * i * i + 2) % WR], [i \in 1 .. WDom |-> (i * i * i + 7 * i) % WR] >>
VARIABLES pt, pi
Init == pt = 0 /\ pi = 1
Next == \/ pt < WR - 1 /\ pt' = pt + 1 /\ pi' = pi
        \/ pi < Len(PolyPal) /\ pi' = pi + 1 /\ pt' = pt
Spec == Init /\ [][Next]_<<pt, pi>>
IpaOK ==
  LET f  == PolyPal[pi]
      C  == PCommit(Basis, f)
      tr == TNew(<<7>>)
      p  == IPAProve(tr, Cfg, AP, C, f, pt)
      side == p.w # 0 /\ \A k \in 1 .. Len(p.xs) : p.xs[k] # 0
  IN  /\ p.y = PEval(f, pt)
      /\ (pt < WDom => p.y = f[pt + 1] /\ IPABVector(AP, pt) = PUnit(pt, 1))
      /\ (pt >= WDom => IPABVector(AP, pt) = PLagrange(AP, pt) /\ PIsLagrange(IPABVector(AP, pt), pt))
      /\ (side => LET v == IPAVerify(tr, Cfg, AP, C, p.proof, pt, p.y) IN v.ok /\ ~v.err /\ v.tr = p.tr)
      /\ \A r \in 0 .. (WR - 1) :
           LET a == IPAVerify(tr, Cfg, AP, C, p.proof, pt, r)
               b == ImplIPAVerify(tr, Cfg, AP, C, p.proof, pt, r)
           IN  a.ok = b.ok /\ a.err = b.err /\ a.tr = b.tr
=============================================================================
