CONSTANTS
  WP = 193 WR = 53 WA = 188 WD = 10 WGX = 1 WGY = 163 WNR = 5 WRNR = 2 WDom = 4 WRounds = 2 WCB = 1 WSB = 1
  WHash <- IdHash
  SS = 6 BSz = 2 NBl = 3
SPECIFICATION Spec
INVARIANTS SqrtOK PointOK
CHECK_DEADLOCK FALSE
