CONSTANTS
  WP <- RealP
  WR <- RealR
  WA <- RealA
  WD <- RealD
  WGX <- RealGX
  WGY <- RealGY
  WNR <- RealNR
  WRNR <- RealRNR
  WDom = 256
  WRounds = 8
  WCB = 32
  WSB = 32
  WHash <- Sha256
INIT Init
NEXT Next
INVARIANT Finished
CHECK_DEADLOCK FALSE
