------------------------------- MODULE BigNat -------------------------------
(***************************************************************************)
(* Natural numbers of arbitrary size for TLC, whose own integers are       *)
(* 32-bit.  A number is the canonical little-endian tuple of its base-2^28 *)
(* digits ("limbs"); zero is <<>>; the last limb of a non-zero number is   *)
(* non-zero.  Canonical form makes TLA+ equality coincide with numeric     *)
(* equality.                                                               *)
(*                                                                         *)
(* Every operator X has a pure, executable definition XPure that is its    *)
(* MEANING.  The operator X itself is defined as XPure and is replaced at  *)
(* run time by a Java module override (BigNat.java, java.math.BigInteger)  *)
(* that is only an accelerator: SelfTestBigNat.tla makes TLC compare X     *)
(* with XPure on boundary and pseudo-random operands.                      *)
(*                                                                         *)
(* Loops are written with FoldLeft (evaluated eagerly by TLC) rather than  *)
(* RECURSIVE operators with accumulators: TLC passes operator arguments    *)
(* lazily and re-evaluates them at every use, which makes accumulator      *)
(* recursion exponential.                                                  *)
(***************************************************************************)
EXTENDS Integers, Sequences, SequencesExt

LB   == 28
LIMB == 268435456      \* 2^28
HALF == 16384          \* 2^14

Strip(s) == LET nz == {i \in 1 .. Len(s) : s[i] # 0}
            IN  IF nz = {} THEN <<>>
                ELSE SubSeq(s, 1, CHOOSE i \in nz : \A j \in nz : j <= i)

IsBigNat(a) == /\ DOMAIN a = 1 .. Len(a)
               /\ \A i \in 1 .. Len(a) : a[i] \in 0 .. (LIMB - 1)
               /\ (Len(a) > 0 => a[Len(a)] # 0)

Limb(a, i) == IF i <= Len(a) THEN a[i] ELSE 0
MaxI(x, y) == IF x > y THEN x ELSE y
Idx(n) == [i \in 1 .. n |-> i]

OfInt(i) == IF i = 0 THEN <<>>
            ELSE IF i < LIMB THEN <<i>>
            ELSE <<i % LIMB, i \div LIMB>>      \* i < 2^31

ToInt(a) == IF Len(a) = 0 THEN 0 ELSE IF Len(a) = 1 THEN a[1] ELSE a[1] + LIMB * a[2]   \* caller guarantees < 2^31

-----------------------------------------------------------------------------
(* comparison: -1, 0, 1; the most significant differing limb decides *)
BCmpPure(a, b) ==
  IF Len(a) < Len(b) THEN -1
  ELSE IF Len(a) > Len(b) THEN 1
  ELSE LET df == {i \in 1 .. Len(a) : a[i] # b[i]}
       IN  IF df = {} THEN 0
           ELSE LET t == CHOOSE i \in df : \A j \in df : j <= i
                IN  IF a[t] < b[t] THEN -1 ELSE 1
BCmp(a, b) == BCmpPure(a, b)

-----------------------------------------------------------------------------
(* addition with carry; state <<digits so far, carry>> *)
BAddPure(a, b) ==
  LET n  == MaxI(Len(a), Len(b))
      st == FoldLeft(LAMBDA s, i : LET t == Limb(a, i) + Limb(b, i) + s[2]
                                   IN  <<Append(s[1], t % LIMB), t \div LIMB>>,
                     <<<<>>, 0>>, Idx(n))
  IN  Strip(Append(st[1], st[2]))
BAdd(a, b) == BAddPure(a, b)

(* subtraction a - b for a >= b, with borrow *)
BSubPure(a, b) ==
  LET st == FoldLeft(LAMBDA s, i : LET d == a[i] - Limb(b, i) - s[2]
                                   IN  IF d < 0 THEN <<Append(s[1], d + LIMB), 1>>
                                                ELSE <<Append(s[1], d), 0>>,
                     <<<<>>, 0>>, Idx(Len(a)))
  IN  Strip(st[1])
BSub(a, b) == BSubPure(a, b)

-----------------------------------------------------------------------------
(* multiplication: schoolbook on base-2^14 digits so that no partial       *)
(* product leaves TLC's 32-bit integers                                    *)
ToHalf(a) == [k \in 1 .. 2 * Len(a) |-> IF k % 2 = 1 THEN a[(k + 1) \div 2] % HALF
                                                     ELSE a[k \div 2] \div HALF]
FromHalf(h) == [k \in 1 .. (Len(h) + 1) \div 2 |->
                  h[2 * k - 1] + HALF * (IF 2 * k <= Len(h) THEN h[2 * k] ELSE 0)]
(* acc + (h * d) * (2^14)^sh, all base-2^14 digit sequences; acc has length Len(h)+Len(g)+1 *)
MulAddRow(acc, h, d, sh) ==
  LET st == FoldLeft(LAMBDA s, i : LET j  == i - sh
                                       hv == IF j >= 1 /\ j <= Len(h) THEN h[j] ELSE 0
                                       t  == hv * d + acc[i] + s[2]
                                   IN  IF j < 1 THEN <<Append(s[1], acc[i]), 0>>
                                       ELSE <<Append(s[1], t % HALF), t \div HALF>>,
                     <<<<>>, 0>>, Idx(Len(acc)))
  IN  st[1]
BMulPure(a, b) ==
  IF a = <<>> \/ b = <<>> THEN <<>>
  ELSE LET h == ToHalf(a)  g == ToHalf(b)
           z == [k \in 1 .. (Len(h) + Len(g) + 1) |-> 0]
       IN  Strip(FromHalf(FoldLeft(LAMBDA acc, k : MulAddRow(acc, h, g[k], k - 1), z, Idx(Len(g)))))
BMul(a, b) == BMulPure(a, b)

-----------------------------------------------------------------------------
(* bits and shifts *)
Pow2(k) == FoldLeft(LAMBDA x, i : 2 * x, 1, Idx(k))          \* k <= 30

IntBitLen(v) == IF v = 0 THEN 0 ELSE (CHOOSE k \in 1 .. LB : Pow2(k - 1) <= v /\ v < Pow2(k))
BBitLenPure(a) == IF a = <<>> THEN 0 ELSE LB * (Len(a) - 1) + IntBitLen(a[Len(a)])
BBitLen(a) == BBitLenPure(a)

BBitPure(a, i) == LET q == i \div LB  r == i % LB
                  IN  IF q + 1 > Len(a) THEN 0 ELSE (a[q + 1] \div Pow2(r)) % 2
BBit(a, i) == BBitPure(a, i)

(* a * 2 + bit *)
BDoublePlus(a, bit) == BAddPure(BAddPure(a, a), IF bit = 0 THEN <<>> ELSE <<1>>)

(* binary long division, most significant bit first: returns <<quotient, remainder>> *)
BDivModPure(a, m) ==
  LET n == BBitLenPure(a)
  IN  FoldLeft(LAMBDA s, k : LET r2 == BDoublePlus(s[2], BBitPure(a, n - k))
                             IN  IF BCmpPure(r2, m) >= 0
                                 THEN <<BDoublePlus(s[1], 1), BSubPure(r2, m)>>
                                 ELSE <<BDoublePlus(s[1], 0), r2>>,
               <<<<>>, <<>>>>, Idx(n))
BDivMod(a, m) == BDivModPure(a, m)
BDivPure(a, m) == BDivModPure(a, m)[1]
BModPure(a, m) == BDivModPure(a, m)[2]
BDiv(a, m) == BDivPure(a, m)
BMod(a, m) == BModPure(a, m)

Pow2Big(k) == [i \in 1 .. (k \div LB + 1) |-> IF i = k \div LB + 1 THEN Pow2(k % LB) ELSE 0]
BShrPure(a, k) == BDivPure(a, Pow2Big(k))
BShr(a, k) == BShrPure(a, k)

-----------------------------------------------------------------------------
(* modular arithmetic *)
BAddModPure(a, b, m) == BModPure(BAddPure(a, b), m)
BSubModPure(a, b, m) == BModPure(BAddPure(BModPure(a, m), BSubPure(m, BModPure(b, m))), m)
BMulModPure(a, b, m) == BModPure(BMulPure(a, b), m)
BAddMod(a, b, m) == BAddModPure(a, b, m)
BSubMod(a, b, m) == BSubModPure(a, b, m)
BMulMod(a, b, m) == BMulModPure(a, b, m)

(* square and multiply, most significant bit first *)
BPowModPure(b, e, m) ==
  LET n  == BBitLenPure(e)
      bb == BModPure(b, m)
  IN  FoldLeft(LAMBDA acc, k : LET sq == BMulModPure(acc, acc, m)
                               IN  IF BBitPure(e, n - k) = 1 THEN BMulModPure(sq, bb, m) ELSE sq,
               BModPure(<<1>>, m), Idx(n))
BPowMod(b, e, m) == BPowModPure(b, e, m)

(* inverse modulo a PRIME m by Fermat; 0 |-> 0 *)
BInvModPure(a, m) == BPowModPure(a, BSubPure(m, <<2>>), m)
BInvMod(a, m) == BInvModPure(a, m)

-----------------------------------------------------------------------------
(* byte strings (sequences of 0..255) *)
BFromBytesBEPure(bs) == FoldLeft(LAMBDA acc, x : BAddPure(BMulPure(acc, <<256>>), OfInt(x)), <<>>, bs)
BFromBytesBE(bs) == BFromBytesBEPure(bs)

BFromBytesLEPure(bs) == BFromBytesBEPure(Reverse(bs))
BFromBytesLE(bs) == BFromBytesLEPure(bs)

(* little-endian encoding on exactly n bytes (value mod 256^n); state <<bytes, rest>> *)
BToBytesLEPure(a, n) ==
  FoldLeft(LAMBDA s, i : LET qr == BDivModPure(s[2], <<256>>)
                         IN  <<Append(s[1], ToInt(qr[2])), qr[1]>>,
           <<<<>>, a>>, Idx(n))[1]
BToBytesLE(a, n) == BToBytesLEPure(a, n)
BToBytesBEPure(a, n) == Reverse(BToBytesLEPure(a, n))
BToBytesBE(a, n) == BToBytesBEPure(a, n)

=============================================================================
