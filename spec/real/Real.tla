--------------------------------- MODULE Real ---------------------------------
(* The real-world instance of the library specification: all core modules, the real
   constants and SHA-256.  Root modules of real-world runs EXTEND this module and use
   RealWorld.cfg-style constant bindings (see *.cfg in this directory). *)
EXTENDS Codec, RealConst, Crypto, TLC, IOUtils, Json

RealNR == <<5>>          \* 5 is a non-residue of F_p (checked by KAT) 
RealRNR == <<5>>         \* placeholder non-residue mod r, validated by KAT
RealSeed == <<101, 116, 104, 95, 118, 101, 114, 107, 108, 101, 95, 111, 99, 116, 95, 50, 48, 50, 49>>   \* "eth_verkle_oct_2021"
Str2Bytes(s) == s        \* byte strings are written as tuples of integers in this specification
=============================================================================
