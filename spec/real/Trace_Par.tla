------------------------------- MODULE Trace_Par -------------------------------
(***************************************************************************)
(* Trace specification for parallel.Execute (C20).  Each event is one call *)
(* Execute(n, work, m) of the real code: the ranges the work function saw   *)
(* (sorted by start), and how many invocations had finished when Execute   *)
(* returned.  Judged against the RELATION Parallel!IsSplit - any correct   *)
(* split is accepted, not only the code's distribution of the remainder -  *)
(* and "returns only after every invocation has returned".                 *)
(***************************************************************************)
EXTENDS Parallel, TraceLib
VARIABLES l, bad, cnt
vars == <<l, bad, cnt>>

(* IsSplit for ranges sorted by start: contiguous from 0 to n, non-empty, at most min(n, m) *)
SortedSplit(n, m, ss, es) ==
  LET k == Len(ss) IN
  /\ Len(es) = k
  /\ k <= (IF n < m THEN n ELSE m)
  /\ \A i \in 1 .. k : ss[i] < es[i]
  /\ IF k = 0 THEN n = 0
     ELSE /\ ss[1] = 0 /\ es[k] = n
          /\ \A i \in 1 .. (k - 1) : es[i] = ss[i + 1]
ExecDevs(l0, e) ==
  One(SortedSplit(e.n, e.m, e.starts, e.ends), l0, "C20", <<"ranges are not a split of [0,n) among at most min(n,m) invocations", e.n, e.m, e.starts, e.ends>>, <<"exec", "split">>) \o
  One(e.done_at_return = Len(e.starts) /\ e.started_at_return = Len(e.starts), l0, "C20",
      <<"Execute returned before every invocation had returned", e.n, e.m, e.done_at_return, Len(e.starts)>>, <<"exec", "join">>)
(* cross-check of the two formulations on the recorded data *)
ASSUME \A n \in 0 .. 12, m \in 1 .. 5 :
         LET r == ExecRanges(n, m) IN
         IsSplit(n, m, r) /\ SortedSplit(n, m, [i \in 1 .. Len(r) |-> r[i][1]], [i \in 1 .. Len(r) |-> r[i][2]])

Init == l = 1 /\ bad = <<>> /\ cnt = << >>
Next == /\ l <= Len(Trace)
        /\ LET e == Trace[l]
           IN  /\ bad' = AddBad(bad, ExecDevs(l, e))
               /\ cnt' = Bump(cnt, IF e.default THEN "default" ELSE "explicit")
        /\ l' = l + 1
Spec == Init /\ [][Next]_vars
Finished == l = Len(Trace) + 1 => WriteVerdict(l, bad, cnt)
=============================================================================
