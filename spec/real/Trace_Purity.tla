------------------------------ MODULE Trace_Purity ------------------------------
(***************************************************************************)
(* Trace specification for purity (C13).  The frame of EVERY API call      *)
(* excludes the shared configuration (SRS, Q, weight tables, precomputed   *)
(* MSM tables), the package-level values (generator, identity, curve       *)
(* parameters, Fiat-Shamir labels) and the caller's inputs; so their       *)
(* fingerprints, taken by the driver after every call of a mixed history,  *)
(* never change, and a fixed probe call returns the same outputs wherever  *)
(* in a history it is placed.  (The per-call frame conditions on element   *)
(* pools, proofs and statements are part of Trace_Group / Trace_Proof /    *)
(* Trace_Commit / Trace_MSM and are reported there under C13 as well.)     *)
(***************************************************************************)
EXTENDS Integers, Sequences, TraceLib
VARIABLES l, bad, cnt, ref
vars == <<l, bad, cnt, ref>>
Init == l = 1 /\ bad = <<>> /\ cnt = << >> /\ ref = [set |-> FALSE]
Next ==
  /\ l <= Len(Trace)
  /\ LET e == Trace[l]
         first == ~ref.set
         r == IF first THEN [set |-> TRUE, cfg |-> e.cfg, pkg |-> e.pkg, tables |-> e.tables, probe |-> e.probe] ELSE ref
         sig(x) == <<"purity", e.op, x>>
     IN  /\ ref' = r
         /\ bad' = AddBad(bad,
               (IF Has(e, "panic") THEN <<Dev(l, "C13", <<"call panicked", e.op, e.panic>>, sig("panic"))>> ELSE <<>>) \o
               One(e.cfg = r.cfg, l, "C13", <<"the shared configuration (SRS, Q, weights) changed during", e.op>>, sig("config")) \o
               One(e.pkg = r.pkg, l, "C13", <<"package-level values (generator, identity, curve parameters, labels) changed during", e.op>>, sig("package")) \o
               One(~Has(e, "tables") \/ e.tables = r.tables, l, "C13", <<"the precomputed MSM tables changed before", e.op>>, sig("tables")) \o
               One(~Has(e, "probe") \/ e.probe = r.probe, l, "C13", <<"the probe call returned different outputs after this history", e.op, e.k>>, sig("probe")) \o
               One(e.inputs_unchanged, l, "C13", <<"the call modified caller-supplied inputs", e.op>>, sig("inputs")) \o
               One(~Has(e, "after_ok") \/ e.after_ok, l, "C13", "an honest verification fails right after failing calls: they left something behind", sig("after-failing")))
         /\ cnt' = Bump(cnt, e.op)
  /\ l' = l + 1
Spec == Init /\ [][Next]_vars
Finished == l = Len(Trace) + 1 => WriteVerdict(l, bad, cnt)
=============================================================================
