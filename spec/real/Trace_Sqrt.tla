------------------------------- MODULE Trace_Sqrt -------------------------------
(***************************************************************************)
(* Trace specification for the base-field square root and point recovery   *)
(* (C17).  SqrtPrecomp(v): nil <=> v is a non-residue (Euler), else the    *)
(* result squared is v (0 for 0), v untouched.  GetPointFromX: nil <=> no  *)
(* curve point has this x, else (x, y) on the curve with y the requested   *)
(* root.  The exported tables must equal their definitions and the 256     *)
(* lookup keys must be pairwise distinct.                                  *)
(***************************************************************************)
EXTENDS Real, SqrtTable, TraceLib
VARIABLES l, bad, cnt
vars == <<l, bad, cnt>>

SqrtDevs(l0, e) ==
  LET qr == FLegendre(WP, e.v) >= 0 IN
  One(e["nil"] = ~qr, l0, "C17", <<"SqrtPrecomp: nil exactly for non-residues", e["nil"], qr>>, <<"sqrt", IF qr THEN "nil-for-residue" ELSE "root-for-nonresidue">>) \o
  (IF ~e["nil"] /\ qr THEN One(NLt(e.out, WP) /\ FSqr(WP, e.out) = e.v, l0, "C17", "SqrtPrecomp: result squared differs from the input", <<"sqrt", "value">>) ELSE <<>>) \o
  One(e.unchanged, l0, "C17", "SqrtPrecomp modified its input", <<"sqrt", "input">>)

PointDevs(l0, e) ==
  LET x2  == FSqr(WP, e.x)
      y2  == FDiv(WP, FSub(WP, FMul(WP, WA, x2), N1), FSub(WP, FMul(WP, WD, x2), N1))
      has == FLegendre(WP, y2) >= 0 IN
  One(e["nil"] = ~has, l0, "C17", <<"GetPointFromX: nil exactly when no curve point has this x", e["nil"], has>>, <<"pointfromx", "existence">>) \o
  (IF ~e["nil"] /\ has
   THEN One(e.px = e.x /\ EOnCurve(<<e.px, e.py>>) /\ (e.py = N0 \/ FLexLargest(WP, e.py) = e.largest), l0, "C17",
            "GetPointFromX: not the curve point with the requested root", <<"pointfromx", "value">>)
   ELSE <<>>) \o
  One(e.unchanged, l0, "C17", "GetPointFromX modified its input", <<"pointfromx", "input">>)

TableDevs(l0, e) ==
  LET g == e.roots[1]
      R == e.roots[25]                                \* g^(2^24): generator of the order-256 subgroup
      \* expected table: for a = 0..255 the low 16 bits of the Montgomery word of R^a map to (-a) mod 256
      want == FoldLeft(LAMBDA S, a : <<FMul(WP, S[1], R),
                                       S[2] \cup {<<NToInt(NMod(FMul(WP, S[1], RealPMontR), NOfInt(65536))), (256 - a) % 256>>}>>,
                       <<N1, {}>>, [a \in 1 .. 256 |-> a - 1])[2]
      got  == {<<e.lut[i][1], e.lut[i][2]>> : i \in 1 .. Len(e.lut)}
  IN  One(NPowMod(g, Pow2Big(31), WP) = NSub(WP, N1) /\ \A i \in 1 .. 32 : e.roots[i + 1] = FSqr(WP, e.roots[i]), l0, "C17",
          "dyadic roots of unity are not the successive squares of a primitive 2^32-th root", <<"tables", "roots">>) \o
      One(\A i \in 1 .. 4, j \in 1 .. 256 : e.blocks[i][j] = NPowMod(g, BMul(OfInt(j - 1), Pow2Big(8 * (i - 1))), WP), l0, "C17",
          "block table entry differs from g^(j << 8i)", <<"tables", "blocks">>) \o
      One(Len(e.lut) = 256 /\ Cardinality({e.lut[i][1] : i \in 1 .. Len(e.lut)}) = 256 /\ got = want, l0, "C17",
          "dlog lookup table: keys not distinct or an entry differs from the negative dlog", <<"tables", "lut">>)

Init == l = 1 /\ bad = <<>> /\ cnt = << >>
Next == /\ l <= Len(Trace)
        /\ LET e == Trace[l]
           IN  /\ bad' = AddBad(bad, CASE e.ev = "sqrt" -> SqrtDevs(l, e) [] e.ev = "pointfromx" -> PointDevs(l, e) [] e.ev = "sqrt_tables" -> TableDevs(l, e))
               /\ cnt' = Bump(cnt, IF e.ev = "sqrt_tables" THEN "tables" ELSE e.ev \o "/" \o e.cls \o (IF e["nil"] THEN "/nil" ELSE "/some"))
        /\ l' = l + 1
Spec == Init /\ [][Next]_vars
Finished == l = Len(Trace) + 1 => WriteVerdict(l, bad, cnt)
=============================================================================
