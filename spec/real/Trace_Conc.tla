------------------------------- MODULE Trace_Conc -------------------------------
(***************************************************************************)
(* Trace specification for concurrent use of one configuration (C12).      *)
(* Every call was executed twice by the driver: alone, and while K-1 other *)
(* goroutines were making their own calls.  The specification allows       *)
(* exactly the sequential reply; the configuration and package             *)
(* fingerprints must be the same after the concurrent phase as before.     *)
(* `race` (a report of the Go race detector, fed in by the runner),        *)
(* `hang` (the watchdog) and `concpanic` events match NO action of the     *)
(* specification: a trace containing one is rejected.                      *)
(***************************************************************************)
EXTENDS Integers, Sequences, TraceLib
VARIABLES l, bad, cnt, fp0
vars == <<l, bad, cnt, fp0>>
Init == l = 1 /\ bad = <<>> /\ cnt = << >> /\ fp0 = [set |-> FALSE]
Next ==
  /\ l <= Len(Trace)
  /\ LET e == Trace[l] IN
       /\ fp0' = IF e.ev = "fp" /\ e.when = "before" THEN [set |-> TRUE, cfg |-> e.cfg, pkg |-> e.pkg] ELSE fp0
       /\ bad' = AddBad(bad,
            CASE e.ev = "conc" -> One(e.conc = e.seq, l, "C12", <<"a call returned something else than when executed alone", e.op, [goroutines |-> e.k, gomaxprocs |-> e.gomaxprocs, envgmp |-> e.envgmp]>>, <<"conc", "reply", e.op>>)
              [] e.ev = "fp"   -> IF e.when = "after" /\ fp0.set
                                  THEN One(e.cfg = fp0.cfg /\ e.pkg = fp0.pkg, l, "C12", "configuration or package-level values changed during concurrent use", <<"conc", "config">>)
                                  ELSE <<>>
              [] e.ev = "race" -> <<Dev(l, "C12", <<"the race detector reported a data race", e.text>>, <<"conc", "race">>)>>
              [] e.ev = "hang" -> <<Dev(l, "C12", <<"concurrent calls block: no call returned within the watchdog", [goroutines |-> e.k, gomaxprocs |-> e.gomaxprocs, envgmp |-> e.envgmp, returned |-> e.returned, of |-> e.of]>>, <<"conc", "hang">>)>>
              [] e.ev = "concpanic" -> <<Dev(l, "C12", <<"a goroutine panicked", e.panic>>, <<"conc", "panic">>)>>)
       /\ cnt' = Bump(cnt, IF e.ev = "conc" THEN e.op ELSE e.ev)
  /\ l' = l + 1
Spec == Init /\ [][Next]_vars
Finished == l = Len(Trace) + 1 => WriteVerdict(l, bad, cnt)
=============================================================================
