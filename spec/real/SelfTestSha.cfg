
