------------------------------ MODULE Trace_Group ------------------------------
(***************************************************************************)
(* Trace specification for API histories over a pool of banderwagon        *)
(* elements (C07 C08 C11 C13 C19).  Every event carries the raw projective *)
(* coordinates of the WHOLE pool after the call, the Equal matrix, and     *)
(* Bytes()/MapToScalarField() of every valid slot.  The specification      *)
(* keeps the pool as last logged, computes the group-level value each call *)
(* must produce from the operands' previous coordinates (module Edwards at *)
(* the real constants), and judges:                                        *)
(*   C08  result is a valid element of the specified class                 *)
(*   C07  Equal(i,j) <=> same class; Bytes = canonical encoding; never     *)
(*        Equal to the all-zero value                                      *)
(*   C11  MapToScalarField = (x/y as LE integer) mod r                     *)
(*   C13  slots outside the call's frame keep their coordinates bit for    *)
(*        bit; by-pointer inputs unchanged                                 *)
(*   C19  batch helpers = position-wise single-element specification;      *)
(*        BatchNormalize all-or-nothing                                    *)
(* A slot whose content is not a valid element after a deviation is        *)
(* poisoned ("bad"): calls reading it are skipped, so one defect is        *)
(* reported once.                                                          *)
(***************************************************************************)
EXTENDS Real, EdwardsImpl, TraceLib

VARIABLES l, bad, cnt, pool, pst, srs
vars == <<l, bad, cnt, pool, pst, srs>>
NS == 5
S  == 1 .. NS

PAf(i) == IAff(pool[i])
Okk(i) == pst[i] = "ok"
AllOk(xs) == \A i \in 1 .. Len(xs) : Okk(xs[i])

(* the element class the call must leave in slot d: <<defined, point>> *)
Want(e) ==
  CASE e.op = "gen"      -> <<TRUE, <<WGX, WGY>>>>
    [] e.op = "id"       -> <<TRUE, EId>>
    [] e.op = "srs"      -> <<TRUE, srs[e.a + 1]>>
    [] e.op \in {"ypt", "rpt", "spt"} -> <<TRUE, e.pt>>            \* an input chosen by the driver; IValid below checks it is a group element
    [] e.op = "add"      -> <<Okk(e.a) /\ Okk(e.b), EAdd(PAf(e.a), PAf(e.b))>>
    [] e.op = "addmixed" -> <<Okk(e.a) /\ Okk(e.b), EAdd(PAf(e.a), PAf(e.b))>>
    [] e.op = "sub"      -> <<Okk(e.a) /\ Okk(e.b), ESub(PAf(e.a), PAf(e.b))>>
    [] e.op = "double"   -> <<Okk(e.a), EDbl(PAf(e.a))>>
    [] e.op = "neg"      -> <<Okk(e.a), ENeg(PAf(e.a))>>
    [] e.op = "set"      -> <<Okk(e.a), PAf(e.a)>>
    [] e.op = "encdec"   -> <<Okk(e.a), PAf(e.a)>>
    [] e.op = "encdecu"  -> <<Okk(e.a), PAf(e.a)>>
    [] e.op = "smul"     -> <<Okk(e.a), EMul(e.s, PAf(e.a))>>
    [] e.op = "msm"      -> <<AllOk(e.l), EMsm(e.scalars, [i \in 1 .. Len(e.l) |-> PAf(e.l[i])])>>
    [] e.op \in {"normalize", "flip", "rescale"} -> <<Okk(e.d), PAf(e.d)>>
    [] OTHER             -> <<FALSE, EId>>

Writes(e) == e.op \in {"gen", "id", "srs", "ypt", "rpt", "spt", "add", "addmixed", "sub", "double", "neg", "set", "encdec", "encdecu", "smul", "msm",
                       "normalize", "flip", "rescale", "zero", "inf"}
Frame(e) == IF Writes(e) THEN {e.d} ELSE IF e.op = "bnorm" THEN {e.l[i] : i \in 1 .. Len(e.l)} ELSE {}

Sig(e, what) == <<"group", e.op, what>>
OperandClass(e) == IF e.op = "smul" /\ Okk(e.a) /\ PAf(e.a)[1] = N0 THEN "identity-operand" ELSE "result"

(* C08: the written slot *)
ResultDevs(l0, e) ==
  LET w == Want(e)  new == e.pool[e.d]
  IN  IF ~Writes(e) \/ e.op \in {"zero", "inf"} \/ ~w[1] THEN <<>>
      ELSE IF Has(e, "panic") THEN <<Dev(l0, "C08", <<e.op, "panicked", e.panic>>, Sig(e, "panic"))>>
      ELSE IF Has(e, "err") /\ e.err THEN <<Dev(l0, IF e.op \in {"encdec", "encdecu"} THEN "C07" ELSE "C08", <<e.op, "returned an error on valid operands">>, Sig(e, "error"))>>
      ELSE IF ~IValid(new) THEN <<Dev(l0, "C08", <<e.op, "result is not a valid group element (off curve, outside the subgroup, Z = 0 or all-zero)", e.sc>>, Sig(e, OperandClass(e)))>>
      ELSE IF ~EEq(IAff(new), w[2]) THEN <<Dev(l0, IF e.op \in {"encdec", "encdecu"} THEN "C07" ELSE "C08", <<e.op, "result is not the specified group element", e.sc>>, Sig(e, "result"))>>
      ELSE (IF e.op = "normalize" THEN One(new[3] = N1, l0, "C19", "Normalize did not produce Z = 1", Sig(e, "z")) ELSE <<>>) \o
           (IF e.op = "encdecu" THEN One(e.ubytes = EEncUncompressed(PAf(e.a)) /\ IAff(new) = PAf(e.a), l0, "C19", "uncompressed form is not the raw affine (x, y) / trusted decoding differs", Sig(e, "uncompressed")) ELSE <<>>)

(* C13: frame and by-pointer inputs *)
FrameDevs(l0, e) ==
  LET changed == {i \in S : e.pool[i] # pool[i] /\ i \notin Frame(e)}
  IN  One(changed = {}, l0, "C13", <<e.op, "modified a slot outside its frame", changed>>, Sig(e, "frame")) \o
      One(~Has(e, "s_unchanged") \/ e.s_unchanged, l0, "C13", <<e.op, "modified its scalar argument">>, Sig(e, "scalar-arg")) \o
      One(~Has(e, "inputs_unchanged") \/ e.inputs_unchanged, l0, "C13", <<e.op, "modified its input slices">>, Sig(e, "slice-arg")) \o
      One(~Has(e, "buf_unchanged") \/ e.buf_unchanged, l0, "C13", <<e.op, "modified its input buffer">>, Sig(e, "buffer-arg")) \o
      One(~Has(e, "tails_unchanged") \/ e.tails_unchanged, l0, "C13", <<e.op, "wrote into the spare capacity of the caller's slice">>, Sig(e, "capacity"))

(* C19: batch helpers *)
BatchDevs(l0, e) ==
  LET n == Len(e.l)
      idx == 1 .. n
  IN  IF e.op = "bnorm" THEN
        LET hasinf == \E i \in idx : pst[e.l[i]] = "inf"
            usable == \A i \in idx : pst[e.l[i]] \in {"ok", "inf"}
        IN  IF ~usable THEN <<>>
            ELSE IF hasinf
            THEN One(e.err, l0, "C19", "BatchNormalize accepted an un-normalisable element", Sig(e, "error-missing")) \o
                 One(\A i \in S : e.pool[i] = pool[i], l0, "C19", "BatchNormalize modified elements although it failed", Sig(e, "partial-write"))
            ELSE One(~e.err, l0, "C19", "BatchNormalize failed on normalisable elements", Sig(e, "error")) \o
                 One(\A i \in idx : e.pool[e.l[i]][3] = N1 /\ IAff(e.pool[e.l[i]]) = PAf(e.l[i]), l0, "C19",
                     "BatchNormalize changed an element or left Z # 1", Sig(e, "value"))
      ELSE IF ~AllOk(e.l) THEN <<>>
      ELSE IF e.op = "bbytes" THEN
        One(Len(e.outs) = n /\ \A i \in idx : e.outs[i] = EEnc(PAf(e.l[i])), l0, "C19", "ElementsToBytes differs from the canonical encoding", Sig(e, "value")) \o
        One(Len(e.outs) = n /\ \A i \in idx : e.outs[i] = EEnc(PAf(e.l[i])), l0, "C07", "ElementsToBytes differs from the canonical encoding", Sig(e, "value"))
      ELSE IF e.op = "bunc" THEN
        One(Len(e.outs) = n /\ \A i \in idx : e.outs[i] = EEncUncompressed(PAf(e.l[i])) /\ e.outs[i] = e.single[i], l0, "C19",
            "BatchToBytesUncompressed differs from the affine (x, y) / from the single-element form", Sig(e, "value"))
      ELSE IF e.op = "bmap" THEN
        One(~e.err /\ Len(e.outs) = n /\ \A i \in idx : e.outs[i] = EMapToScalar(PAf(e.l[i])), l0, "C19",
            "BatchMapToScalarField differs from x/y mod r", Sig(e, "value")) \o
        One(~e.err /\ Len(e.outs) = n /\ \A i \in idx : e.outs[i] = EMapToScalar(PAf(e.l[i])), l0, "C11",
            "BatchMapToScalarField differs from x/y mod r", Sig(e, "value"))
      ELSE <<>>

(* C19 on a private heap (long lists, arbitrary pointer aliasing): e.ptrs[i] is the 0-based cell of pointer i *)
BigBatchDevs(l0, e) ==
  LET n      == Len(e.ptrs)
      idx    == 1 .. n
      cells  == 1 .. Len(e.heap_before)
      used   == {e.ptrs[i] + 1 : i \in idx}
      hb(c)  == e.heap_before[c]
      ha(c)  == e.heap_after[c]
      normalisable == \A c \in used : hb(c)[3] # N0
      A(i)   == IAff(hb(e.ptrs[i] + 1))
      sig(x) == <<"group", e.op, x>>
  IN  IF e.op = "Bnorm" THEN
        IF ~normalisable
        THEN One(e.err, l0, "C19", "BatchNormalize accepted an un-normalisable element", sig("error-missing")) \o
             One(\A c \in cells : ha(c) = hb(c), l0, "C19", <<"BatchNormalize modified elements although it failed", n, e.sc>>, sig("partial-write"))
        ELSE One(~e.err, l0, "C19", "BatchNormalize failed on normalisable elements", sig("error")) \o
             One(\A c \in cells : IF c \in used THEN ha(c)[3] = N1 /\ IAff(ha(c)) = IAff(hb(c)) ELSE ha(c) = hb(c), l0, "C19",
                 <<"BatchNormalize changed an element, left Z # 1, or touched a cell it was not given", n, e.sc>>, sig("value"))
      ELSE
        One(\A c \in cells : ha(c) = hb(c), l0, "C13", <<e.op, "modified its input elements">>, sig("inputs")) \o
        (IF e.op = "Bbytes" THEN
           One(Len(e.outs) = n /\ \A i \in idx : e.outs[i] = EEnc(A(i)), l0, "C19", <<"ElementsToBytes differs from the canonical encoding", n, e.sc>>, sig("value")) \o
           One(Len(e.outs) = n /\ \A i \in idx : e.outs[i] = EEnc(A(i)), l0, "C07", <<"ElementsToBytes differs from the canonical encoding", n, e.sc>>, sig("value"))
         ELSE IF e.op = "Bunc" THEN
           One(Len(e.outs) = n /\ \A i \in idx : e.outs[i] = EEncUncompressed(A(i)), l0, "C19", <<"BatchToBytesUncompressed differs from the affine (x, y)", n, e.sc>>, sig("value"))
         ELSE
           One(~e.err /\ Len(e.outs) = n /\ \A i \in idx : e.outs[i] = EMapToScalar(A(i)), l0, "C19", <<"BatchMapToScalarField differs from x/y mod r", n, e.sc>>, sig("value")) \o
           One(~e.err /\ Len(e.outs) = n /\ \A i \in idx : e.outs[i] = EMapToScalar(A(i)), l0, "C11", <<"BatchMapToScalarField differs from x/y mod r", n, e.sc>>, sig("value")))

(* status of the slots after the call, as the specification sees them *)
NewPst(e) ==
  [i \in S |->
     IF Writes(e) /\ i = e.d
     THEN (IF e.op = "zero" THEN "zero" ELSE IF e.op = "inf" THEN "inf"
           ELSE IF Has(e, "err") /\ e.err THEN pst[i]
           ELSE IF IValid(e.pool[i]) THEN "ok" ELSE "bad")
     ELSE pst[i]]

(* C07 / C11 on the pool AFTER the call *)
ObsDevs(l0, e, np) ==
  LET ok(i) == np[i] = "ok"
      A(i)  == IAff(e.pool[i])
      eqbad == {<<i, j>> \in S \X S :
                  \/ (ok(i) /\ ok(j) /\ e.eq[i][j] # EEq(A(i), A(j)))
                  \/ ((np[i] = "zero" \/ np[j] = "zero") /\ np[i] # "bad" /\ np[j] # "bad" /\ e.eq[i][j])}
      encbad == {i \in S : ok(i) /\ e.bytes[i] # EEnc(A(i))}
      mapbad == {i \in S : ok(i) /\ e.map[i] # EMapToScalar(A(i))}
  IN  One(eqbad = {}, l0, "C07", <<"Equal disagrees with class equality / all-zero guard", eqbad, e.op>>, <<"group", "obs", "equal">>) \o
      One(encbad = {}, l0, "C07", <<"Bytes() differs from the canonical encoding", encbad, e.op>>, <<"group", "obs", "bytes">>) \o
      One(mapbad = {}, l0, "C11", <<"MapToScalarField differs from x/y mod r", mapbad, e.op>>, <<"group", "obs", "map">>)

-----------------------------------------------------------------------------
Init == l = 1 /\ bad = <<>> /\ cnt = << >> /\ pool = [i \in S |-> IIdentity] /\ pst = [i \in S |-> "ok"] /\ srs = <<>>
Next ==
  /\ l <= Len(Trace)
  /\ LET e == Trace[l] IN
       CASE e.ev = "config" ->
              /\ srs' = [i \in 1 .. Len(e.srs) |-> IAff(e.srs[i])]
              /\ bad' = AddBad(bad, One(\A i \in 1 .. Len(e.srs) : IValid(e.srs[i]), l, "C13", "SRS holds an invalid element", <<"group", "config", "srs">>))
              /\ UNCHANGED <<cnt, pool, pst>>
         [] e.ev = "reset" ->
              /\ pool' = [i \in S |-> e.pool[i]] /\ pst' = [i \in S |-> "ok"]
              /\ UNCHANGED <<bad, cnt, srs>>
         [] e.ev = "g" ->
              LET np == NewPst(e) IN
              /\ bad' = AddBad(bad, IF e.op \in {"Bnorm", "Bbytes", "Bunc", "Bmap"} THEN BigBatchDevs(l, e) \o FrameDevs(l, e) \o ObsDevs(l, e, np)
                                     ELSE ResultDevs(l, e) \o FrameDevs(l, e) \o BatchDevs(l, e) \o ObsDevs(l, e, np))
              /\ pool' = [i \in S |-> e.pool[i]]
              /\ pst' = np
              /\ cnt' = Bump(cnt, e.op)
              /\ UNCHANGED srs
  /\ l' = l + 1
Spec == Init /\ [][Next]_vars
Finished == l = Len(Trace) + 1 => WriteVerdict(l, bad, cnt)
=============================================================================
