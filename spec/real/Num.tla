--------------------------------- MODULE Num ---------------------------------
(***************************************************************************)
(* The number layer of the REAL world: naturals are BigNat limb tuples.    *)
(* The core specification modules EXTEND a module called Num and use only  *)
(* the operators below; spec/small/Num.tla provides the same operators on  *)
(* TLC's native integers.  Which of the two is linked is decided by the    *)
(* directory TLC is started in (module search path), so one text of the    *)
(* specification is model checked exhaustively at small constants and      *)
(* judges the real code at the real constants.                             *)
(***************************************************************************)
EXTENDS Integers, Sequences, SequencesExt, BigNat

N0 == <<>>
N1 == <<1>>
NOfInt(i) == OfInt(i)
NToInt(n) == ToInt(n)
NAdd(a, b) == BAdd(a, b)
NSub(a, b) == BSub(a, b)                \* a >= b
NMul(a, b) == BMul(a, b)
NDiv(a, b) == BDiv(a, b)
NMod(a, m) == BMod(a, m)
NLt(a, b)  == BCmp(a, b) < 0
NLe(a, b)  == BCmp(a, b) <= 0
NAddMod(a, b, m) == BAddMod(a, b, m)
NSubMod(a, b, m) == BSubMod(a, b, m)
NMulMod(a, b, m) == BMulMod(a, b, m)
NPowMod(b, e, m) == BPowMod(b, e, m)
NInvMod(a, m) == BInvMod(a, m)          \* m prime; 0 |-> 0
NBit(n, i) == BBit(n, i)
NBitLen(n) == BBitLen(n)
NShr(n, k) == BShr(n, k)
NFromBytesLE(bs) == BFromBytesLE(bs)
NFromBytesBE(bs) == BFromBytesBE(bs)
NToBytesLE(n, len) == BToBytesLE(n, len)
NToBytesBE(n, len) == BToBytesBE(n, len)

(***************************************************************************)
(* Eager let.  TLC evaluates LET definitions and operator arguments lazily *)
(* and RE-EVALUATES them at every reference, so an expensive definition    *)
(* referenced n times costs n evaluations (and chains of such definitions  *)
(* multiply).  ELet(v, LAMBDA x : body) evaluates v exactly once - as the  *)
(* element of a tuple handed to the (Java) FoldLeft - and binds the        *)
(* resulting VALUE to x in body.  Semantically ELet(v, F) = F(v).          *)
(***************************************************************************)
ELet(v, F(_)) == FoldLeft(LAMBDA acc, x : F(x), 0, <<v>>)
=============================================================================
