INIT Init
NEXT Next
INVARIANT Finished
CHECK_DEADLOCK FALSE
