-------------------------------- MODULE Trace_MSM --------------------------------
(***************************************************************************)
(* Trace specification for the variable-base MSM (C09).  Every recorded    *)
(* call carries its points (affine x, y), its scalars (regular values) and *)
(* the element returned; the specification's value is Edwards!EMsm.        *)
(* The call must have returned within the watchdog; a length mismatch must *)
(* give an error; by-slice inputs must be unchanged.  For the internal     *)
(* entry point the partitioned scalars (when logged) are decoded the way   *)
(* the bucket accumulation reads them and must reconstruct each scalar.    *)
(***************************************************************************)
EXTENDS Real, EdwardsImpl, MSMImpl, TraceLib
VARIABLES l, bad, cnt
vars == <<l, bad, cnt>>

(* decode a partitioned scalar: sum of positive digits and of negated digits, as naturals *)
DecodePartition(P, c) ==
  LET nb  == 256 \div c + (IF 256 % c # 0 THEN 1 ELSE 0)
      msb == Pow2(c - 1)
  IN  FoldLeft(LAMBDA S, k : LET b == NToInt(NMod(NShr(P, c * (k - 1)), NOfInt(Pow2(c))))
                             IN  IF b = 0 THEN S
                                 ELSE IF b < msb THEN <<NAdd(S[1], NMul(NOfInt(b), Pow2Big(c * (k - 1)))), S[2]>>
                                 ELSE <<S[1], NAdd(S[2], NMul(NOfInt((b - msb) + 1), Pow2Big(c * (k - 1))))>>,
               <<N0, N0>>, [k \in 1 .. nb |-> k])
PartitionOK(e) == \A i \in 1 .. Len(e.partition) :
                    LET d == DecodePartition(e.partition[i], e.c) IN NAdd(e.scalars[i], d[2]) = d[1]

MsmDevs(l0, e) ==
  LET sig(x) == <<"msm", e.kind, x>> IN
  IF ~e.finished THEN <<Dev(l0, "C09", <<"call did not return within the watchdog", e.kind, e.n, e.tasks>>, sig("hang"))>>
  ELSE IF Has(e, "panic") THEN <<Dev(l0, "C09", <<"call panicked", e.kind, e.n, e.tasks, e.panic>>, sig("panic"))>>
  ELSE IF e.kind = "mismatch" THEN One(e.err, l0, "C09", "length mismatch accepted", sig("mismatch"))
  ELSE IF e.err THEN <<Dev(l0, "C09", <<"error on well-formed input", e.n, e.tasks>>, sig("error"))>>
  ELSE LET want == EMsm(e.scalars, [i \in 1 .. Len(e.pts) |-> <<e.pts[i][1], e.pts[i][2]>>])
       IN  (IF ~IValid(e.out) THEN <<Dev(l0, "C09", <<"result is not a valid element", e.kind, e.n, e.tasks, e.mont>>, sig("invalid"))>>
            ELSE One(EEq(IAff(e.out), want), l0, "C09", <<"result differs from sum s_i P_i", e.kind, e.n, e.tasks, e.mont, e.small, e.pcls, e.scls, IF Has(e, "c") THEN e.c ELSE 0>>, sig("value")) \o
                 \* the same slices after in-place changes, or a call after a history of other calls: a wrong result here is a dependence on earlier calls
                 (IF e.pcls \in {"reuse", "history", "after-mismatches"}
                  THEN One(EEq(IAff(e.out), want), l0, "C13", <<"the result of a call depends on the calls that preceded it (reused slices / history)", e.pcls, e.n, e.tasks>>, sig("history"))
                  ELSE <<>>)) \o
           (IF Has(e, "inputs_unchanged") THEN One(e.inputs_unchanged, l0, "C13", "MultiExp modified its input slices", sig("inputs")) ELSE <<>>) \o
           (IF Has(e, "tails_unchanged") THEN One(e.tails_unchanged, l0, "C13", "MultiExp wrote into the spare capacity of a caller's slice", sig("capacity")) ELSE <<>>) \o
           (IF Has(e, "aff_err") THEN One(~e.aff_err /\ EEq(<<e.aff[1], e.aff[2]>>, want), l0, "C09", <<"MultiExpAffine differs from sum s_i P_i", e.n, e.tasks>>, sig("affine")) ELSE <<>>) \o
           \* the decision MultiExp reported through the hook against the implementation-shaped chooser model (MSMImpl!SplitLoop,
           \* the model MC_MsmChooser checks for every n <= 8192): a mismatch means the model is stale, not that the property fails
           (IF Has(e, "decision")
            THEN LET r == SplitLoop(256, IF e.decision.tasks <= 0 THEN e.numcpu ELSE e.decision.tasks, 1, e.decision.n)
                     sm == Cardinality({i \in 1 .. Len(e.scalars) : e.scalars[i] # N0 /\ NLt(e.scalars[i], NOfInt(MP2(r.C)))})
                 IN  One(e.decision.c = r.C /\ e.decision.splits = r.splits /\ e.decision.pts = r.pts, l0, "DRIFT",
                         <<"window/split decision differs from the chooser model", e.decision, r>>, sig("decision")) \o
                     One(e.decision.small = sm /\ e.decision.splitfirst = (e.decision.n > 0 /\ 10 * sm >= e.decision.n), l0, "DRIFT",
                         <<"small-scalar count / first-chunk split differs from the model", e.decision, sm>>, sig("smallvalues"))
            ELSE <<>>) \o
           (IF Has(e, "partition") THEN One(PartitionOK(e), l0, "C09", <<"partitioned scalars do not decode to the scalars", e.c>>, sig("partition")) ELSE <<>>)

Init == l = 1 /\ bad = <<>> /\ cnt = << >>
Next == /\ l <= Len(Trace)
        /\ LET e == Trace[l]
           IN  /\ bad' = AddBad(bad, MsmDevs(l, e))
               /\ cnt' = Bump(cnt, IF e.kind = "inner" THEN "inner/c" \o ToString(e.c) \o (IF e.split THEN "/split" ELSE "") ELSE e.kind)
        /\ l' = l + 1
Spec == Init /\ [][Next]_vars
Finished == l = Len(Trace) + 1 => WriteVerdict(l, bad, cnt)
=============================================================================
