------------------------------ MODULE Trace_Proof ------------------------------
(***************************************************************************)
(* Trace specification for the proof protocols (C01 C02 C03 C04 C10, and   *)
(* the purity clauses of C13 on these calls).  The oracle is the TEXTBOOK  *)
(* protocol of modules IPA / Multiproof / Codec at the real constants: an  *)
(* independent prover and verifier evaluated by TLC over the SRS the code  *)
(* holds (which Trace_Commit ties to the specified CRS derivation).        *)
(*  prove       reference proof from the logged polynomials, indices and   *)
(*              commitments: serialised bytes must be equal (C03), as must *)
(*              the transcript's next challenge; no error (C01);           *)
(*              commitments only re-normalised (C13)                       *)
(*  verify      the recorded (ok, error) must equal the reference          *)
(*              verifier's on the recorded statement (C02); honest         *)
(*              statements must be accepted with the prover's next         *)
(*              challenge (C01); a statement that differs from the honest  *)
(*              one as a tuple of group elements and scalars must be       *)
(*              rejected (C02); never a panic                              *)
(*  ipa_*       same for the IPA alone, with p(point) evaluated in         *)
(*              coefficient form (C04)                                     *)
(*  read/write  acceptance = Codec!CValid*Bytes on the delivered bytes,    *)
(*              whatever the chunking; faults give errors (C10)            *)
(***************************************************************************)
EXTENDS Real, EdwardsImpl, TraceLib
VARIABLES l, bad, cnt, srs, hon, ihon, cmc
vars == <<l, bad, cnt, srs, hon, ihon, cmc>>
AP  == PAprimeVec
Cfg == [G |-> srs, Q |-> <<WGX, WGY>>]
LState == <<115, 116, 97, 116, 101>>       \* "state"
Affs(cs) == [i \in 1 .. Len(cs) |-> IAff(cs[i])]
ProofOf(p) == [D |-> IAff(p.D), ipa |-> [L |-> Affs(p.L), R |-> Affs(p.R), a |-> p.a]]
AllValid(cs) == \A i \in 1 .. Len(cs) : IValid(cs[i])
NoHon == [set |-> FALSE]

-----------------------------------------------------------------------------
(* ELet = eager let (module Num): the bound value is computed once *)
Short(s) == IF Len(s) > 12 THEN SubSeq(s, 1, 12) ELSE s          \* long index vectors are abbreviated in messages
ProveStep(l0, e) ==
  LET n    == Len(e.pidx)
      idx  == 1 .. n
      sig(x) == <<"prove", x>>
  IN
  \* commitments of the polynomials, looked up in / added to a cache carried along the trace
  ELet([p \in 1 .. Len(e.polys) |-> LET hit == {k \in 1 .. Len(cmc) : cmc[k][1] = e.polys[p]} IN
                                    IF hit = {} THEN PCommit(srs, e.polys[p]) ELSE cmc[CHOOSE k \in hit : TRUE][2]], LAMBDA cm :
  ELet([i \in 1 .. n |-> [C |-> cm[e.pidx[i] + 1], f |-> e.polys[e.pidx[i] + 1], z |-> e.zs[i]]], LAMBDA ops :
  ELet(Affs(e.cs_after), LAMBDA after :
  ELet(IF Has(e, "panic") \/ e.err THEN [none |-> TRUE] ELSE MPProve(TNew(e.label), Cfg, AP, ops), LAMBDA ref :
    LET bad0 == IF Has(e, "panic") THEN <<Dev(l0, "C01", <<"CreateMultiProof panicked", e.panic>>, sig("panic"))>>
                ELSE IF e.err THEN <<Dev(l0, "C01", <<"CreateMultiProof failed on honest openings", n, Short(e.zs)>>, sig("error"))>>
                ELSE
                  One(AllValid(e.cs_after) /\ \A i \in idx : e.cs_after[i][3] = N1 /\ EEq(after[i], IAff(e.cs_before[i])), l0, "C13",
                      "CreateMultiProof changed a commitment beyond re-normalising it", sig("commitments")) \o
                  One(\A i \in idx : EEq(after[i], ops[i].C), l0, "C05", "a commitment differs from sum f_i G_i", sig("commit")) \o
                  One(e.bytes = CWriteMP([D |-> ref.D, ipa |-> ref.ipa]), l0, "C03",
                      <<"serialised multiproof differs from the specification's proof", n, Short(e.zs), e.numcpu, e.gomaxprocs>>, sig("bytes")) \o
                  One(e.next = TChallengeValue(ref.tr, LState), l0, "C03", <<"prover transcript state differs from the specification's", n>>, sig("transcript")) \o
                  One(~e.write_err, l0, "C10", "Write failed on a bytes.Buffer", sig("write"))
        bad1 == One(e.inputs_unchanged, l0, "C13", "CreateMultiProof modified polynomials or indices", sig("inputs")) \o
                One(~Has(e, "tails_unchanged") \/ e.tails_unchanged, l0, "C13", "CreateMultiProof wrote into the spare capacity of a caller's slice", sig("capacity")) \o
                One(~Has(e, "arrival_forced") \/ e.arrival_ok, l0, "DRIFT", "the forced arrival order of the grouping workers was not the observed one", sig("arrival")) \o
                \* the worker batches seen at the gate hook against the implementation-shaped model (ProofImpl!GGroup): W = NumCPU
                \* workers, batch k = [(k-1)*ceil(n/W), k*ceil(n/W)).  A mismatch means the model is stale, not that the property fails.
                One(~Has(e, "batches") \/ LET W == e.numcpu  b == (n + W - 1) \div W IN
                                          Len(e.batches) = W /\ \A k \in 1 .. W : e.batches[k] = <<(k - 1) * b, IF k * b > n THEN n ELSE k * b>>,
                    l0, "DRIFT", "worker batches differ from the implementation-shaped grouping model", sig("batches"))
        h    == IF Has(e, "panic") \/ e.err THEN NoHon
                ELSE [set |-> TRUE, Cs |-> after, zs |-> e.zs, ys |-> [i \in 1 .. n |-> ops[i].f[ops[i].z + 1]],
                      proof |-> ProofOf(e.proof), label |-> e.label, next |-> e.next, n |-> n]
        newc == FoldLeft(LAMBDA acc, p : IF \E k \in 1 .. Len(acc) : acc[k][1] = e.polys[p] THEN acc ELSE Append(acc, <<e.polys[p], cm[p]>>), cmc, [p \in 1 .. Len(e.polys) |-> p])
    IN  <<bad0 \o bad1, h, newc>>))))

SameElems(a, b) == Len(a) = Len(b) /\ \A i \in 1 .. Len(a) : EEq(a[i], b[i])
Differs(Cs, zs, ys, pf, label) ==
  ~( /\ label = hon.label /\ SameElems(Cs, hon.Cs) /\ zs = hon.zs /\ ys = hon.ys
     /\ EEq(pf.D, hon.proof.D) /\ SameElems(pf.ipa.L, hon.proof.ipa.L) /\ SameElems(pf.ipa.R, hon.proof.ipa.R) /\ pf.ipa.a = hon.proof.ipa.a )

VerifyDevs(l0, e) ==
  LET sig(x) == <<"verify", e.what, x>> IN
  IF Has(e, "panic") THEN <<Dev(l0, "C02", <<"CheckMultiProof panicked", e.what, e.to, e.panic>>, sig("panic"))>>
  ELSE IF ~(AllValid(e.cs) /\ IValid(e.proof.D) /\ AllValid(e.proof.L) /\ AllValid(e.proof.R)) THEN <<>>     \* not a well-formed statement: out of scope
  ELSE
  ELet(Affs(e.cs), LAMBDA Cs :
  ELet(ProofOf(e.proof), LAMBDA pf :
  ELet(MPVerify(TNew(e.label), Cfg, AP, pf, Cs, e.zs, e.ys), LAMBDA ref :
  ELet(hon.set /\ Differs(Cs, e.zs, e.ys, pf, e.label), LAMBDA differs :
      One(e.ok = ref.ok /\ e.err = ref.err, l0, "C02",
          <<"CheckMultiProof disagrees with the reference verifier", e.what, e.to, [code |-> <<e.ok, e.err>>, reference |-> <<ref.ok, ref.err>>]>>, sig("agreement")) \o
      One(~(e.ok /\ e.err), l0, "C02", "true returned together with an error", sig("ok-and-error")) \o
      (IF hon.set /\ e.what = "none"
       THEN One(e.ok /\ ~e.err, l0, "C01", <<"honest multiproof rejected", hon.n, Short(hon.zs)>>, <<"verify", "honest", "rejected">>) \o
            One(e.ok => e.next = hon.next, l0, "C01", "prover and verifier transcripts yield different next challenges", <<"verify", "honest", "transcript">>)
       ELSE <<>>) \o
      (IF differs
       THEN One(~e.ok, l0, "C02", <<"a statement differing from the honest one was accepted", e.what, e.to, e.i>>, sig("accepted-wrong"))
       ELSE IF hon.set /\ e.what # "none"
       THEN One(e.ok, l0, "C02", <<"a statement equal to the honest one as group elements/scalars was rejected (representation dependence)", e.what, e.to>>, sig("representation"))
       ELSE <<>>) \o
      One(e.inputs_unchanged, l0, "C13", "CheckMultiProof modified its inputs", sig("inputs")) \o
      One(~Has(e, "tails_unchanged") \/ e.tails_unchanged, l0, "C13", "CheckMultiProof wrote into the spare capacity of a caller's slice", sig("capacity"))))))

-----------------------------------------------------------------------------
IpaProveStep(l0, e) ==
  LET sig(x) == <<"ipa_prove", x>> IN
  ELet(IAff(e.c), LAMBDA C :
  ELet(IF Has(e, "panic") \/ e.err THEN [none |-> TRUE] ELSE IPAProve(TNew(e.label), Cfg, AP, C, e.f, e.point), LAMBDA ref :
  ELet(PEval(e.f, e.point), LAMBDA y :
    LET devs == IF Has(e, "panic") \/ e.err THEN <<Dev(l0, "C04", <<"CreateIPAProof failed", e.pcls>>, sig("error"))>>
                ELSE One(EEq(C, PCommit(srs, e.f)), l0, "C05", "commitment differs from sum f_i G_i", sig("commit")) \o
                     One(ref.y = y /\ (IPAInDomain(e.point) => y = e.f[NToInt(e.point) + 1]), l0, "C04",
                         <<"<a, b> differs from p(point) evaluated in coefficient form", e.pcls>>, sig("bvector")) \o
                     One(e.bytes = CWriteIPA(ref.proof), l0, "C03", <<"serialised IPA proof differs from the specification's", e.pcls>>, sig("bytes")) \o
                     One(e.next = TChallengeValue(ref.tr, LState), l0, "C03", "prover transcript state differs", sig("transcript")) \o
                     One(e.inputs_unchanged, l0, "C13", "CreateIPAProof modified its polynomial", sig("inputs")) \o
                     One(~Has(e, "tails_unchanged") \/ e.tails_unchanged, l0, "C13", "CreateIPAProof wrote into the spare capacity of the caller's polynomial slice", sig("capacity"))
    IN  <<devs, IF Has(e, "panic") \/ e.err THEN NoHon ELSE [set |-> TRUE, C |-> C, proof |-> ref.proof, point |-> e.point, y |-> y, label |-> e.label]>>)))
IpaVerifyDevs(l0, e) ==
  One(~Has(e, "tails_unchanged") \/ e.tails_unchanged, l0, "C13", "CheckIPAProof wrote into the spare capacity of the caller's proof slices", <<"ipa_verify", "capacity">>) \o
  IF ~ihon.set THEN <<>>
  ELSE IF Has(e, "panic") THEN <<Dev(l0, "C02", <<"CheckIPAProof panicked", e.panic>>, <<"ipa_verify", "panic">>)>>
  ELSE IF Has(e, "proof")      \* a proof that differs from the honest one in a single component, offered with the correct result
  THEN IF ~(AllValid(e.proof.L) /\ AllValid(e.proof.R)) THEN <<>>
       ELSE ELet(IPAVerify(TNew(ihon.label), Cfg, AP, ihon.C, [L |-> Affs(e.proof.L), R |-> Affs(e.proof.R), a |-> e.proof.a], ihon.point, e.result), LAMBDA ref :
              One(e.ok = ref.ok /\ ~e.err, l0, "C02", <<"CheckIPAProof disagrees with the reference verifier", e.pcls, e.rcls>>, <<"ipa_verify", "agreement-perturbed">>) \o
              \* (for special polynomials a "change" may leave the proof as it was: L_1 of the zero polynomial already is the identity)
              One(e.ok => (SameElems(Affs(e.proof.L), ihon.proof.L) /\ SameElems(Affs(e.proof.R), ihon.proof.R) /\ e.proof.a = ihon.proof.a), l0, "C02",
                  <<"CheckIPAProof accepted a proof that differs from the honest one", e.pcls, e.rcls>>, <<"ipa_verify", "accepted-perturbed">>))
  ELSE ELet(IPAVerify(TNew(ihon.label), Cfg, AP, ihon.C, ihon.proof, ihon.point, e.result), LAMBDA ref :
       One(e.ok = ref.ok /\ ~e.err, l0, "C02", <<"CheckIPAProof disagrees with the reference verifier", e.pcls, e.rcls>>, <<"ipa_verify", "agreement">>) \o
       One(e.ok = (e.result = ihon.y), l0, "C04", <<"accepted iff result = p(point) violated", e.pcls, e.rcls, e.ok>>, <<"ipa_verify", IF e.ok THEN "accepted-wrong" ELSE "rejected-correct">>))

-----------------------------------------------------------------------------
(* (de)serialisation *)
ReadDevs(l0, e) ==
  LET mp      == e.src = "mp"
      need    == IF mp THEN CMPLen ELSE CIPALen
      \* the injected error is returned by the first Read called once err_at bytes have been delivered; Read is only
      \* called while bytes are still needed (mp: up to and including the EOF probe at offset 576; ipa: below 544)
      fires   == e.err_at >= 0 /\ e.err_at <= Len(e.data) /\ (IF mp THEN e.err_at <= need ELSE e.err_at < need)
      why     == IF Len(e.data) > need /\ mp THEN (IF e.eof_with THEN "trailing-with-eof" ELSE "trailing") ELSE IF Len(e.data) < need THEN "short" ELSE e.bcls
      sig(x)  == <<"read", e.src, x>>
  IN  IF Has(e, "panic") THEN <<Dev(l0, "C10", <<"Read panicked", e.bcls, e.rcls, e.panic>>, sig("panic"))>>
      ELSE
      ELet(IF mp THEN CValidMPBytes(e.data) ELSE (Len(e.data) >= need /\ CValidIPABytes(SubSeq(e.data, 1, need))), LAMBDA valid :
        LET reject == fires \/ ~valid IN
        One(e.err = reject, l0, "C10", <<"Read accept/reject differs from the specification", e.src, e.bcls, e.rcls, [accepted |-> ~e.err]>>, sig(IF e.err THEN "reject-valid" ELSE why)) \o
        (IF ~e.err /\ ~reject
         THEN One(~e.werr /\ e.rewritten = SubSeq(e.data, 1, need), l0, "C10", "Write(Read(b)) differs from b", sig("rewrite")) \o
              One(~mp \/ e.reread_equal, l0, "C10", "Read(Write(p)) differs from p", sig("reread")) \o
              One(e.reuse_ok, l0, "C10", "Read into a proof object that already holds a proof gives a different proof", sig("receiver-state"))
         ELSE <<>>))
WriteDevs(l0, e) ==
  LET calls == IF e.src = "mp" THEN 2 * WRounds + 2 ELSE 2 * WRounds + 1
      pf == ProofOf(e.proof)
  IN  IF e.fault >= 1 /\ e.fault <= calls
      THEN One(e.err, l0, "C10", <<"Write ignored a failing writer", e.src, e.fault>>, <<"write", e.src, "ignored-error">>)
      ELSE One(~e.err /\ e.bytes = (IF e.src = "mp" THEN CWriteMP(pf) ELSE CWriteIPA(pf.ipa)), l0, "C10", "Write output differs from the specified layout", <<"write", e.src, "layout">>)

-----------------------------------------------------------------------------
Init == l = 1 /\ bad = <<>> /\ cnt = << >> /\ srs = <<>> /\ hon = NoHon /\ ihon = NoHon /\ cmc = <<>>
Next ==
  /\ l <= Len(Trace)
  /\ LET e == Trace[l] IN
       CASE e.ev = "config" ->
              /\ srs' = [i \in 1 .. Len(e.srs) |-> IAff(e.srs[i])]
              /\ UNCHANGED <<bad, hon, ihon, cmc>> /\ cnt' = Bump(cnt, "config")
         [] e.ev = "prove" ->
              LET r == ProveStep(l, e) IN
              /\ bad' = AddBad(bad, r[1]) /\ hon' = r[2] /\ cmc' = r[3] /\ cnt' = Bump(cnt, IF Has(e, "arrival_forced") THEN "prove/forced-arrival" ELSE "prove") /\ UNCHANGED <<srs, ihon>>
         [] e.ev = "verify" ->
              /\ bad' = AddBad(bad, VerifyDevs(l, e)) /\ cnt' = Bump(cnt, "verify/" \o e.what \o (IF e.ok THEN "/accepted" ELSE IF e.err THEN "/error" ELSE "/rejected"))
              /\ UNCHANGED <<srs, hon, ihon, cmc>>
         [] e.ev = "ipa_prove" ->
              LET r == IpaProveStep(l, e) IN
              /\ bad' = AddBad(bad, r[1]) /\ ihon' = r[2] /\ cnt' = Bump(cnt, "ipa_prove/" \o (IF IPAInDomain(e.point) THEN "in" ELSE "out")) /\ UNCHANGED <<srs, hon, cmc>>
         [] e.ev = "ipa_verify" ->
              /\ bad' = AddBad(bad, IpaVerifyDevs(l, e)) /\ cnt' = Bump(cnt, "ipa_verify/" \o e.rcls \o (IF e.ok THEN "/accepted" ELSE "/rejected"))
              /\ UNCHANGED <<srs, hon, ihon, cmc>>
         [] e.ev = "read" ->
              /\ bad' = AddBad(bad, ReadDevs(l, e)) /\ cnt' = Bump(cnt, "read/" \o e.src \o "/" \o (IF e.err THEN "rejected" ELSE "accepted")) /\ UNCHANGED <<srs, hon, ihon, cmc>>
         [] e.ev = "write" ->
              /\ bad' = AddBad(bad, WriteDevs(l, e)) /\ cnt' = Bump(cnt, "write/" \o (IF e.err THEN "error" ELSE "ok")) /\ UNCHANGED <<srs, hon, ihon, cmc>>
  /\ l' = l + 1
Spec == Init /\ [][Next]_vars
Finished == l = Len(Trace) + 1 => WriteVerdict(l, bad, cnt)
=============================================================================
