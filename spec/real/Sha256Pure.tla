----------------------------- MODULE Sha256Pure -----------------------------
(***************************************************************************)
(* SHA-256 (FIPS 180-4) in pure TLA+, executable by TLC: the MEANING of    *)
(* the operator Crypto!Sha256, whose Java override is checked against this *)
(* definition by SelfTestSha.  32-bit words do not fit TLC's signed        *)
(* integers, so a word is a pair <<hi, lo>> of 16-bit halves; bitwise      *)
(* operators come from the CommunityModules' Bitwise.                      *)
(***************************************************************************)
EXTENDS Integers, Sequences, SequencesExt, Bitwise

ShH16 == 65536
ShW(hi, lo) == <<hi, lo>>
ShWXor(a, b) == <<a[1] ^^ b[1], a[2] ^^ b[2]>>
ShWAnd(a, b) == <<a[1] & b[1], a[2] & b[2]>>
ShWNot(a) == <<65535 - a[1], 65535 - a[2]>>
ShWAdd(a, b) == LET lo == a[2] + b[2]  hi == a[1] + b[1] + lo \div ShH16 IN <<hi % ShH16, lo % ShH16>>
ShP2(k) == FoldLeft(LAMBDA x, i : 2 * x, 1, [i \in 1 .. k |-> i])
(* rotate / shift right by n in 1..31 *)
ShWRotr(a, n) ==
  IF n = 16 THEN <<a[2], a[1]>>
  ELSE IF n < 16 THEN << (a[1] \div ShP2(n)) + (a[2] % ShP2(n)) * ShP2(16 - n), (a[2] \div ShP2(n)) + (a[1] % ShP2(n)) * ShP2(16 - n) >>
  ELSE LET m == n - 16 IN << (a[2] \div ShP2(m)) + (a[1] % ShP2(m)) * ShP2(16 - m), (a[1] \div ShP2(m)) + (a[2] % ShP2(m)) * ShP2(16 - m) >>
ShWShr(a, n) ==
  IF n < 16 THEN << a[1] \div ShP2(n), (a[2] \div ShP2(n)) + (a[1] % ShP2(n)) * ShP2(16 - n) >>
  ELSE << 0, a[1] \div ShP2(n - 16) >>

ShCh(x, y, z)  == ShWXor(ShWAnd(x, y), ShWAnd(ShWNot(x), z))
ShMaj(x, y, z) == ShWXor(ShWXor(ShWAnd(x, y), ShWAnd(x, z)), ShWAnd(y, z))
ShBS0(x) == ShWXor(ShWXor(ShWRotr(x, 2), ShWRotr(x, 13)), ShWRotr(x, 22))
ShBS1(x) == ShWXor(ShWXor(ShWRotr(x, 6), ShWRotr(x, 11)), ShWRotr(x, 25))
ShSS0(x) == ShWXor(ShWXor(ShWRotr(x, 7), ShWRotr(x, 18)), ShWShr(x, 3))
ShSS1(x) == ShWXor(ShWXor(ShWRotr(x, 17), ShWRotr(x, 19)), ShWShr(x, 10))

ShK == << ShW(17034, 12184), ShW(28983, 17553), ShW(46528, 64463), ShW(59829, 56229), ShW(14678, 49755), ShW(23025, 4593), ShW(37439, 33444), ShW(43804, 24277),
        ShW(55303, 43672), ShW(4739, 23297), ShW(9265, 34238), ShW(21772, 32195), ShW(29374, 23924), ShW(32990, 45566), ShW(39900, 1703), ShW(49563, 61812),
        ShW(58523, 27073), ShW(61374, 18310), ShW(4033, 40390), ShW(9228, 41420), ShW(11753, 11375), ShW(19060, 33962), ShW(23728, 43484), ShW(30457, 35034),
        ShW(38974, 20818), ShW(43057, 50797), ShW(45059, 10184), ShW(48985, 32711), ShW(50912, 3059), ShW(54695, 37191), ShW(1738, 25425), ShW(5161, 10599),
        ShW(10167, 2693), ShW(11803, 8504), ShW(19756, 28156), ShW(21304, 3347), ShW(25866, 29524), ShW(30314, 2747), ShW(33218, 51502), ShW(37490, 11397),
        ShW(41663, 59553), ShW(43034, 26187), ShW(49739, 35696), ShW(51052, 20899), ShW(53650, 59417), ShW(54937, 1572), ShW(62478, 13701), ShW(4202, 41072),
        ShW(6564, 49430), ShW(7735, 27656), ShW(10056, 30540), ShW(13488, 48309), ShW(14620, 3251), ShW(20184, 43594), ShW(23452, 51791), ShW(26670, 28659),
        ShW(29839, 33518), ShW(30885, 25455), ShW(33992, 30740), ShW(36039, 520), ShW(37054, 65530), ShW(42064, 27883), ShW(48889, 41975), ShW(50801, 30962) >>
ShH0 == << ShW(27145, 58983), ShW(47975, 44677), ShW(15470, 62322), ShW(42319, 62778), ShW(20750, 21119), ShW(39685, 26764), ShW(8067, 55723), ShW(23520, 52505) >>

(* padding: message || 0x80 || zeros || 64-bit big-endian bit length (lengths < 2^24 bytes) *)
ShPad(msg) ==
  LET n == Len(msg)
      z == (119 - (n % 64)) % 64          \* number of zero bytes so that n + 1 + z + 8 is a multiple of 64
      bits == n * 8
  IN  msg \o <<128>> \o [i \in 1 .. z |-> 0] \o <<0, 0, 0, 0, (bits \div 16777216) % 256, (bits \div 65536) % 256, (bits \div 256) % 256, bits % 256>>

ShBlock(h, blk) ==
  LET w0 == [t \in 1 .. 16 |-> ShW(blk[4 * t - 3] * 256 + blk[4 * t - 2], blk[4 * t - 1] * 256 + blk[4 * t])]
      w  == FoldLeft(LAMBDA s, t : Append(s, ShWAdd(ShWAdd(ShSS1(s[t - 2]), s[t - 7]), ShWAdd(ShSS0(s[t - 15]), s[t - 16]))), w0, [t \in 1 .. 48 |-> t + 16])
      \* working variables a..h as an 8-tuple
      r  == FoldLeft(LAMBDA v, t :
                       LET t1 == ShWAdd(ShWAdd(ShWAdd(v[8], ShBS1(v[5])), ShWAdd(ShCh(v[5], v[6], v[7]), ShK[t])), w[t])
                           t2 == ShWAdd(ShBS0(v[1]), ShMaj(v[1], v[2], v[3]))
                       IN  <<ShWAdd(t1, t2), v[1], v[2], v[3], ShWAdd(v[4], t1), v[5], v[6], v[7]>>,
                     h, [t \in 1 .. 64 |-> t])
  IN  [i \in 1 .. 8 |-> ShWAdd(h[i], r[i])]

Sha256Pure(msg) ==
  LET p == ShPad(msg)
      h == FoldLeft(LAMBDA acc, b : ShBlock(acc, SubSeq(p, 64 * (b - 1) + 1, 64 * b)), ShH0, [b \in 1 .. (Len(p) \div 64) |-> b])
  IN  FoldLeft(LAMBDA out, i : out \o <<h[i][1] \div 256, h[i][1] % 256, h[i][2] \div 256, h[i][2] % 256>>, <<>>, [i \in 1 .. 8 |-> i])
=============================================================================
