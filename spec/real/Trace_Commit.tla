------------------------------ MODULE Trace_Commit ------------------------------
(***************************************************************************)
(* Trace specification for Pedersen commitments (C05).                     *)
(*  config    : the SRS as the code holds it (raw coordinates)             *)
(*  crs_check : the SRS must be the specified CRS derivation (Pedersen!PCRS*)
(*              from the seed "eth_verkle_oct_2021")                       *)
(*  commit    : Commit(v) must be the element sum_i v_i G_i, computed by   *)
(*              the specification (Edwards!EMsm) over the logged SRS; its  *)
(*              bytes the canonical encoding; MultiScalar over the         *)
(*              published SRS must agree; the input vector untouched       *)
(*  linlaw    : Commit(a)+Commit(b) = Commit(a+b), k*Commit(a) = Commit(ka)*)
(*  table     : entry j of window w of point i is (j+1) * 2^(ws*w) * G_i,  *)
(*              normalised, with T = X*Y                                   *)
(***************************************************************************)
EXTENDS Real, EdwardsImpl, TraceLib
VARIABLES l, bad, cnt, srs
vars == <<l, bad, cnt, srs>>

CommitDevs(l0, e) ==
  LET want == EMsm(e.vals, [i \in 1 .. Len(e.idx) |-> srs[e.idx[i] + 1]])
      sig(x) == <<"commit", x>>
  IN  (IF ~IValid(e.out) THEN <<Dev(l0, "C05", <<"Commit returned an invalid element", e.cls>>, sig("invalid"))>>
       ELSE One(EEq(IAff(e.out), want), l0, "C05", <<"Commit differs from sum v_i G_i", e.cls, e.idx>>, sig("value")) \o
            One(e.bytes = EEnc(want), l0, "C05", <<"bytes of the commitment differ from the encoding of sum v_i G_i", e.cls>>, sig("bytes"))) \o
      (IF Has(e, "ms") THEN One(~e.ms_err /\ IValid(e.ms) /\ EEq(IAff(e.ms), want), l0, "C05", <<"MultiScalar over the SRS differs from sum v_i G_i", e.cls>>, sig("multiscalar")) ELSE <<>>) \o
      (IF e.cls = "reuse" /\ IValid(e.out)
       THEN One(EEq(IAff(e.out), want), l0, "C13", "Commit of a slice that was changed in place since its last use gives the result of other contents (dependence on earlier calls)", sig("history"))
       ELSE <<>>) \o
      One(e.input_unchanged, l0, "C13", "Commit modified its input vector", sig("input")) \o
      One(~Has(e, "tails_unchanged") \/ e.tails_unchanged, l0, "C13", "Commit wrote into the spare capacity of the caller's slice", sig("capacity"))
LinDevs(l0, e) ==
  One(IValid(e.via_add) /\ EEq(IAff(e.sum), IAff(e.via_add)), l0, "C05", "Commit(a+b) differs from Commit(a)+Commit(b)", <<"commit", "linear-add">>) \o
  One(IValid(e.via_mul) /\ EEq(IAff(e.ka), IAff(e.via_mul)), l0, "C05", "Commit(k*a) differs from k*Commit(a)", <<"commit", "linear-mul">>)
TableDevs(l0, e) ==
  LET base == EMul(Pow2Big(e.ws * e.win), srs[e.pos + 1])
      st == FoldLeft(LAMBDA S, j : LET cur == EAdd(S[1], base)  ent == e.entries[j]
                                   IN  <<cur, S[2] /\ ent[1] = cur[1] /\ ent[2] = cur[2] /\ ent[3] = FMul(WP, cur[1], cur[2])>>,
                     <<EId, TRUE>>, [j \in 1 .. Len(e.entries) |-> j])
  IN  One(st[2], l0, "C05", <<"precomputed table entry differs from (j+1) * 2^(ws*w) * G_i (normalised, T = XY)", e.pos, e.win>>, <<"commit", "table">>) \o
      One(e.ws = (IF e.pos < 5 THEN 16 ELSE 8) /\ e.nwin = 256 \div e.ws /\ e.nent = Pow2(e.ws - 1), l0, "DRIFT", "table dimensions", <<"commit", "table-dims">>)

Init == l = 1 /\ bad = <<>> /\ cnt = << >> /\ srs = <<>>
Next ==
  /\ l <= Len(Trace)
  /\ LET e == Trace[l] IN
       /\ srs' = IF e.ev = "config" THEN [i \in 1 .. Len(e.srs) |-> IAff(e.srs[i])] ELSE srs
       /\ bad' = AddBad(bad,
            CASE e.ev = "config"    -> One(\A i \in 1 .. Len(e.srs) : IValid(e.srs[i]) /\ e.srs[i][3] = N1, l, "C13", "SRS holds an invalid or non-normalised element", <<"commit", "srs">>)
              [] e.ev = "crs_check" -> One(srs = PCRS(RealSeed, 256, 1500), l, "C05", "the SRS is not the specified CRS derivation", <<"commit", "crs">>)
              [] e.ev = "commit"    -> CommitDevs(l, e)
              [] e.ev = "linlaw"    -> LinDevs(l, e)
              [] e.ev = "table"     -> TableDevs(l, e))
       /\ cnt' = Bump(cnt, IF e.ev = "commit" THEN e.cls ELSE e.ev)
  /\ l' = l + 1
Spec == Init /\ [][Next]_vars
Finished == l = Len(Trace) + 1 => WriteVerdict(l, bad, cnt)
=============================================================================
