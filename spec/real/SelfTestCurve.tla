---------------------------- MODULE SelfTestCurve ----------------------------
(* The Java accelerators of Edwards!EMulX / EMsmX equal the pure TLA+ definitions (double-and-add over the affine
   addition law; fold of scalar multiplications) on the generator, CRS-style points and boundary scalars. *)
EXTENDS Real
G == <<WGX, WGY>>
P2x == EAdd(G, G)
Scalars == << <<>>, <<1>>, <<2>>, NSub(WR, N1), WR, <<0, 0, 0, 0, 1>>, NFromBytesLE(Sha256(<<1>>)), NMod(NFromBytesLE(Sha256(<<2>>)), WR) >>
Points  == << G, P2x, EMul(<<12345>>, G), ETors(G), EId >>
ASSUME \A i \in 1 .. Len(Scalars), j \in 1 .. Len(Points) : EMulX(WP, WA, WD, Scalars[i], Points[j]) = EMulPure(WP, WA, WD, Scalars[i], Points[j])
ASSUME EMsmX(WP, WA, WD, <<Scalars[3], Scalars[7], Scalars[8]>>, <<G, P2x, Points[3]>>) = EMsmPure(WP, WA, WD, <<Scalars[3], Scalars[7], Scalars[8]>>, <<G, P2x, Points[3]>>)
ASSUME LET ks == [i \in 1 .. 45 |-> NMod(NFromBytesLE(Sha256(<<i>>)), WR)]
           ps == [i \in 1 .. 45 |-> EMul(<<i + 1>>, G)]
       IN  EMsmX(WP, WA, WD, ks, ps) = EMsmPure(WP, WA, WD, ks, ps)          \* bucket path of the accelerator (n >= 40)
ASSUME EMsmX(WP, WA, WD, <<>>, <<>>) = EId
ASSUME PrintT("curve accelerators = pure definitions")
=============================================================================
