------------------------------ MODULE Trace_Decode ------------------------------
(***************************************************************************)
(* Trace specification for untrusted point decoding (C06).  For every      *)
(* recorded call  (entry point, input bytes) -> (error?, element, its      *)
(* re-encoding)  the specification decides from the BYTES alone whether    *)
(* the input must be accepted (Edwards!EDec / EDecUncompressed) and, if    *)
(* so, which element it denotes.  ReadPoint consumes exactly WCB bytes.    *)
(***************************************************************************)
EXTENDS Real, EdwardsImpl, TraceLib

VARIABLES l, bad, cnt
vars == <<l, bad, cnt>>

(* why the specification rejects an input, or "accept" *)
ReasonCompressed(bs) ==
  IF Len(bs) # WCB THEN "len"
  ELSE LET x == NFromBytesBE(bs) IN
       IF ~NLt(x, WP) THEN "x>=p"
       ELSE IF ~EYFromX(x, TRUE)[1] THEN "offcurve"
       ELSE IF ~ESubgroupX(x) THEN "nonsubgroup"
       ELSE "accept"
ReasonUncompressed(bs) ==
  IF Len(bs) # 2 * WCB THEN "len"
  ELSE LET x  == NFromBytesBE(SubSeq(bs, 1, WCB))
           yb == NFromBytesBE(SubSeq(bs, WCB + 1, 2 * WCB)) IN
       IF ~NLt(x, WP) THEN "x>=p"
       ELSE IF ~NLt(yb, WP) THEN "y>=p"
       ELSE LET y == EYFromX(x, TRUE) IN
            IF ~y[1] THEN "offcurve"
            ELSE IF y[2] # yb THEN "ywrong"
            ELSE IF ~ESubgroupX(x) THEN "nonsubgroup"
            ELSE "accept"

Input(e) == IF e.fn = "ReadPoint" /\ Len(e.buf) >= WCB THEN SubSeq(e.buf, 1, WCB) ELSE e.buf
Reason(e) == IF e.fn = "SetBytesUncompressed" THEN ReasonUncompressed(Input(e)) ELSE ReasonCompressed(Input(e))
Point(e)  == IF e.fn = "SetBytesUncompressed" THEN EDecUncompressed(Input(e))[2] ELSE EDec(Input(e))[2]

(* sub-class of the accepted inputs: the canonical y agrees with (p-1)/2 -- the boundary of the sign choice -- on its top 64 bits *)
HalfP == NShr(NSub(WP, NOfInt(1)), 1)
YBoundary(e) == LET P == Point(e) IN NShr(P[2], 192) = NShr(HalfP, 192)
Class(e, why) == IF why = "accept" /\ YBoundary(e) THEN "accept-yboundary" ELSE why

(* the receiver's previous contents must not matter *)
UsedDevs(l0, e) ==
  IF ~Has(e, "err_used") \/ Has(e, "panic") THEN <<>>
  ELSE One(e.err_used = e.err /\ (e.err \/ e.out_used = e.out), l0, "C06", <<e.fn, "decoding into a receiver that already held an element gives a different outcome">>, <<"decode", e.fn, "receiver-state">>)

DecodeDevs(l0, e, why) ==
  LET sig(x) == <<"decode", e.fn, x>> IN
  IF Has(e, "panic") THEN <<Dev(l0, "C06", <<e.fn, "panicked", e.panic>>, sig("panic"))>>
  ELSE IF why # "accept"
  THEN One(e.err, l0, "C06", <<e.fn, "accepted an input the specification rejects", why>>, sig(why))
  ELSE IF e.err THEN <<Dev(l0, "C06", <<e.fn, "rejected a canonical encoding of a subgroup element">>, sig("reject-valid"))>>
  ELSE LET P == Point(e) IN
       One(IValid(e.out) /\ EEq(IAff(e.out), P), l0, "C06", <<e.fn, "decoded element differs from the specification's">>, sig("value")) \o
       One(e.reenc = Input(e), l0, "C06", <<e.fn, "re-encoding differs from the accepted input (two encodings of one element)">>, sig("reencode")) \o
       One(EEq(EMul(WR, P), EId), l0, "C06", <<e.fn, "accepted element is not of order dividing r">>, sig("order")) \o
       One(e.buf_unchanged, l0, "C13", <<e.fn, "modified its input buffer">>, sig("buffer-arg"))

Init == l = 1 /\ bad = <<>> /\ cnt = << >>
Next == /\ l <= Len(Trace)
        /\ LET e == Trace[l]  why == Reason(e)
           IN  /\ bad' = AddBad(bad, DecodeDevs(l, e, why))
               /\ cnt' = Bump(cnt, e.fn \o "/" \o Class(e, why))
        /\ l' = l + 1
Spec == Init /\ [][Next]_vars
Finished == l = Len(Trace) + 1 => WriteVerdict(l, bad, cnt)
=============================================================================
