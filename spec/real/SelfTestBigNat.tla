--------------------------- MODULE SelfTestBigNat ---------------------------
(* Override = pure definition, for every BigNat operator, on boundary and seeded operands. *)
EXTENDS Integers, Sequences, TLC, IOUtils, BigNat, Crypto, RealConst

Seed == IF "VERIF_SEED" \in DOMAIN IOEnv THEN atoi(IOEnv.VERIF_SEED) ELSE 1
N    == IF "SELFTEST_N" \in DOMAIN IOEnv THEN atoi(IOEnv.SELFTEST_N) ELSE 12

Rnd(i, k) == BFromBytesLE(Sha256(<<Seed % 256, (Seed \div 256) % 256, i % 256, i \div 256, k>>))

Boundary == << <<>>, <<1>>, <<2>>, <<268435455>>, <<0, 1>>, <<268435455, 268435455>>,
               <<0, 0, 0, 0, 0, 0, 0, 0, 0, 1>>,
               <<268435455, 268435455, 268435455, 268435455, 268435455, 268435455, 268435455, 268435455, 268435455, 15>> >>
Opnd(i, k) == IF i <= Len(Boundary) * Len(Boundary)
              THEN (IF k = 1 THEN Boundary[((i - 1) % Len(Boundary)) + 1] ELSE Boundary[((i - 1) \div Len(Boundary)) + 1])
              ELSE IF i % 3 = 0 THEN BShr(Rnd(i, k), (i * 7 + k * 13) % 250) ELSE Rnd(i, k)

VARIABLE i
Init == i = 1
Next == i < N + Len(Boundary) * Len(Boundary) /\ i' = i + 1

Agree ==
  LET a == Opnd(i, 1)  b == Opnd(i, 2)
      m == IF Opnd(i, 3) = <<>> \/ i <= 64 THEN <<5, 3>> ELSE Opnd(i, 3)
      hi == IF BCmp(a, b) >= 0 THEN a ELSE b
      lo == IF BCmp(a, b) >= 0 THEN b ELSE a
      sh == (i * 11) % 300
      bs == Sha256(<<i % 256>>)
  IN  /\ IsBigNat(a) /\ IsBigNat(b)
      /\ BCmp(a, b) = BCmpPure(a, b)
      /\ BAdd(a, b) = BAddPure(a, b)
      /\ BSub(hi, lo) = BSubPure(hi, lo)
      /\ BMul(a, b) = BMulPure(a, b)
      /\ BBitLen(a) = BBitLenPure(a)
      /\ BBit(a, sh) = BBitPure(a, sh)
      /\ BDivMod(a, m) = BDivModPure(a, m)
      /\ BDiv(a, m) = BDivPure(a, m)
      /\ BMod(a, m) = BModPure(a, m)
      /\ BShr(a, sh) = BShrPure(a, sh)
      /\ BAddMod(a, b, m) = BAddModPure(a, b, m)
      /\ BSubMod(a, b, m) = BSubModPure(a, b, m)
      /\ BMulMod(a, b, m) = BMulModPure(a, b, m)
      /\ (i % 16 = 1 => BPowMod(a, b, m) = BPowModPure(a, b, m))
      /\ (i % 32 = 2 => BInvMod(a, RealP) = BInvModPure(a, RealP) /\ BInvMod(b, RealR) = BInvModPure(b, RealR))
      /\ BFromBytesBE(bs) = BFromBytesBEPure(bs)
      /\ BFromBytesLE(bs) = BFromBytesLEPure(bs)
      /\ BToBytesLE(a, 32) = BToBytesLEPure(a, 32)
      /\ BToBytesBE(a, 32) = BToBytesBEPure(a, 32)
      /\ BFromBytesLE(BToBytesLE(BMod(a, Pow2Big(256)), 32)) = BMod(a, Pow2Big(256))
=============================================================================
