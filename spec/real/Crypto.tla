------------------------------- MODULE Crypto -------------------------------
(***************************************************************************)
(* SHA-256 on byte strings (sequences of 0..255), returning 32 bytes.  Its *)
(* MEANING is the pure TLA+ definition of module Sha256Pure (FIPS 180-4);  *)
(* the Java override Crypto.java (java.security.MessageDigest) is only an  *)
(* accelerator, compared with the definition by SelfTestSha.               *)
(***************************************************************************)
EXTENDS Sha256Pure
Sha256(bs) == Sha256Pure(bs)
=============================================================================
