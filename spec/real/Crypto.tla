------------------------------- MODULE Crypto -------------------------------
(***************************************************************************)
(* SHA-256 on byte strings (sequences of 0..255), returning 32 bytes.      *)
(* The body below is a placeholder that TLC never evaluates: the operator  *)
(* is supplied by the Java override Crypto.java (java.security).  It is    *)
(* the one TRUSTED primitive of the real-world instance; it is tied to the *)
(* library by the repository's own transcript / CRS / proof vectors, which *)
(* the trace specifications reproduce through it.                          *)
(***************************************************************************)
EXTENDS Integers, Sequences
Sha256(bs) == CHOOSE h \in [1 .. 32 -> 0 .. 255] : FALSE
=============================================================================
