------------------------------ MODULE Trace_Field ------------------------------
(***************************************************************************)
(* Trace specification for the scalar field (C15) and its encodings (C16). *)
(* Every recorded call carries its raw inputs and raw outputs; the         *)
(* specification's value for the call is the integer operation modulo WR   *)
(* (module Field) on the regular values.                                   *)
(***************************************************************************)
EXTENDS Real, TraceLib

VARIABLES l, bad, cnt
vars == <<l, bad, cnt>>

Rinv == FInv(WR, FMontRadix(WR, 256))
Reg(x) == FMul(WR, x, Rinv)                 \* regular value of a raw (Montgomery) word
Mont(v) == FMul(WR, v, FMontRadix(WR, 256))
Reduced(x) == NLt(x, WR)

(* specification value (regular) of a field operation *)
Expected(e) ==
  LET a == Reg(e.x)  b == Reg(e.y)
  IN  CASE e.op = "add"      -> FAdd(WR, a, b)
        [] e.op = "sub"      -> FSub(WR, a, b)
        [] e.op = "mul"      -> FMul(WR, a, b)
        [] e.op = "div"      -> FDiv(WR, a, b)
        [] e.op = "neg"      -> FNeg(WR, a)
        [] e.op = "double"   -> FDbl(WR, a)
        [] e.op = "square"   -> FSqr(WR, a)
        [] e.op = "inverse"  -> FInv(WR, a)
        [] e.op = "mulby3"   -> FMul(WR, a, <<3>>)
        [] e.op = "mulby5"   -> FMul(WR, a, <<5>>)
        [] e.op = "mulby13"  -> FMul(WR, a, <<13>>)
        [] e.op = "frommont" -> Reg(a)                       \* result word = regular value of x
        [] e.op = "tomont"   -> e.x                          \* result word = x * R, i.e. its regular value is x
        [] e.op = "exp"      -> FExp(WR, a, e.e)

OutFails(l0, e) ==
  LET keys == DOMAIN e.out
      want == Expected(e)
      badk == {k \in keys : ~(Reduced(e.out[k]) /\ Reg(e.out[k]) = want)}
  IN  [i \in 1 .. Cardinality(badk) |-> Dev(l0, "C15", <<e.op, SetToSeq(badk)[i], "result differs from integer arithmetic mod r">>, <<"fieldop", e.op>>)]

ButterflyFails(l0, e) ==
  LET a == Reg(e.x)  b == Reg(e.y)
      badk == {k \in DOMAIN e.out : ~( /\ Reduced(e.out[k][1]) /\ Reduced(e.out[k][2])
                                       /\ Reg(e.out[k][1]) = FAdd(WR, a, b)
                                       /\ Reg(e.out[k][2]) = FSub(WR, a, b))}
  IN  [i \in 1 .. Cardinality(badk) |-> Dev(l0, "C15", <<"butterfly", SetToSeq(badk)[i]>>, <<"fieldop", "butterfly">>)]

SqrtFails(l0, e) ==
  LET a == Reg(e.x)
      isnil == Has(e.out, "nil")
  IN  One(e.x_after = e.x, l0, "C15", "sqrt modified its argument", <<"fieldop", "sqrt">>) \o
      (IF isnil THEN One(FLegendre(WR, a) = -1, l0, "C15", "sqrt returned nil for a residue", <<"fieldop", "sqrt">>)
       ELSE One(FLegendre(WR, a) >= 0 /\ Reduced(e.out.asm) /\ FSqr(WR, Reg(e.out.asm)) = a, l0, "C15",
                "sqrt result is not a root / root returned for a non-residue", <<"fieldop", "sqrt">>))

BatchFails(l0, e) ==
  LET n == Len(e.vec)
      ok == /\ Len(e.outvec) = n
            /\ \A i \in 1 .. n : Reduced(e.outvec[i]) /\ Reg(e.outvec[i]) = FInv(WR, Reg(e.vec[i]))
  IN  One(ok, l0, "C15", "BatchInvert differs from position-wise inverse (0 -> 0)", <<"fieldop", "batchinv">>) \o
      One(e.input_unchanged, l0, "C13", "BatchInvert modified its input", <<"fieldop", "batchinv">>)

FieldFails(l0, e) ==
  CASE e.op = "butterfly" -> ButterflyFails(l0, e)
    [] e.op = "sqrt"      -> SqrtFails(l0, e)
    [] e.op = "batchinv"  -> BatchFails(l0, e)
    [] e.op = "legendre"  -> One(e.int = FLegendre(WR, Reg(e.x)) /\ e.x_after = e.x, l0, "C15", "Legendre symbol", <<"fieldop", "legendre">>)
    [] e.op = "cmp"       -> LET a == Reg(e.x)  b == Reg(e.y)
                                 want == IF a = b THEN 0 ELSE IF NLt(a, b) THEN -1 ELSE 1
                             IN  One(e.int = want, l0, "C15", "Cmp", <<"fieldop", "cmp">>)
    [] OTHER              -> OutFails(l0, e)

-----------------------------------------------------------------------------
(* encodings (C16) *)
ValOfBuf(e) == IF e.fn = "SetBytes" THEN NFromBytesBE(e.buf) ELSE NFromBytesLE(e.buf)
CodecFails(l0, e) ==
  IF e.fn \in {"SetBytes", "SetBytesLE", "SetBytesLECanonical", "ReadScalar"} THEN
    LET v      == ValOfBuf(e)
        canon  == e.fn \in {"SetBytesLECanonical", "ReadScalar"}
        short  == e.fn = "ReadScalar" /\ Len(e.buf) < 32
        \* ReadScalar consumes exactly 32 bytes of the stream
        v32    == IF e.fn = "ReadScalar" /\ Len(e.buf) >= 32 THEN NFromBytesLE(SubSeq(e.buf, 1, 32)) ELSE v
        reject == short \/ (canon /\ ~NLt(v32, WR))
        sig(x) == <<"codec", e.fn, x>>
    IN  One(e.err = reject, l0, "C16", <<e.fn, "accept/reject differs from: value < r", e.val>>, sig("acceptance")) \o
        (IF ~e.err /\ ~reject
         THEN One(e.out = NMod(v32, WR) /\ Reduced(e.out_raw) /\ Reg(e.out_raw) = e.out, l0, "C16",
                  <<e.fn, "decoded value differs from integer value mod r">>, sig("value"))
         ELSE <<>>) \o
        One(e.buf_after = e.buf, l0, "C16", <<e.fn, "decoder modified the caller's buffer">>, sig("input-modified")) \o
        (IF ~e.err /\ ~reject
         THEN One(~e.err2 /\ e.out2 = e.out, l0, "C16", <<e.fn, "decoding the same buffer twice gives different results">>, sig("input-modified")) \o
              One(~e.err3 /\ e.out3 = NMod(v32, WR), l0, "C16", <<e.fn, "decoding into a receiver that already held a value gives something else than the integer value mod r", e.val>>, sig("receiver-state"))
         ELSE <<>>)
  ELSE IF e.fn \in {"Bytes", "BytesLE"} THEN
    LET want == IF e.fn = "Bytes" THEN NToBytesBE(e.x, 32) ELSE NToBytesLE(e.x, 32)
    IN  One(e.bytes = want /\ Reg(e.x_raw) = e.x, l0, "C16", <<e.fn, "encoding differs">>, <<"codec", e.fn, "value">>) \o
        One(e.back = e.x, l0, "C16", <<e.fn, "round trip">>, <<"codec", e.fn, "roundtrip">>)
  ELSE \* base-field encoders used by map-to-field and point serialisation
    LET want == IF e.fn = "fpBytes" THEN NToBytesBE(e.x, 32) ELSE NToBytesLE(e.x, 32)
    IN  One(e.bytes = want, l0, "C16", <<e.fn, "encoding differs">>, <<"codec", e.fn, "value">>)

-----------------------------------------------------------------------------
Init == l = 1 /\ bad = <<>> /\ cnt = << >>
Next == /\ l <= Len(Trace)
        /\ LET e == Trace[l]
               devs == IF e.ev = "fieldop" THEN FieldFails(l, e) ELSE CodecFails(l, e)
           IN  /\ bad' = AddBad(bad, devs)
               /\ cnt' = Bump(cnt, IF e.ev = "fieldop" THEN e.op ELSE e.fn)
        /\ l' = l + 1
Spec == Init /\ [][Next]_vars
Finished == l = Len(Trace) + 1 => WriteVerdict(l, bad, cnt)
=============================================================================
