------------------------------- MODULE Trace_Misc -------------------------------
(***************************************************************************)
(* Trace specification for the exported behaviour outside the listed       *)
(* properties' main paths (spec/core/Misc.tla).  Deviations are attributed *)
(* to the property whose statement covers the behaviour where there is     *)
(* one (C05: CRS derivation and precomputed-point multiplication with any  *)
(* window size and the extended-coordinate helpers under it; C10: proof    *)
(* equality; C15: comparison and Montgomery/regular conversions of the     *)
(* scalar field) and to "AUX" otherwise.                                   *)
(***************************************************************************)
EXTENDS Real, EdwardsImpl, Misc, TraceLib
VARIABLES l, bad, cnt
vars == <<l, bad, cnt>>

Sig(e, x) == <<"misc", e.kind, x>>
Panicked(l0, e, prop) == <<Dev(l0, prop, <<e.kind, "panicked", e.panic, e.n, e.w, e.val>>, Sig(e, "panic"))>>

IsPow2(w) == w \in {1, 2, 4, 8, 16, 32, 64, 128, 256}
AffOK(a) == NLt(a[1], WP) /\ NLt(a[2], WP)

PowersDevs(l0, e) ==
  IF Has(e, "panic") THEN <<Dev(l0, "AUX", <<"PowersOf panicked", e.n, e.panic>>, Sig(e, IF e.n = 0 THEN "n=0" ELSE "panic"))>>
  ELSE One(e.out = MPowersOf(e.x, e.n), l0, "AUX", <<"PowersOf differs from <1, x, .., x^(n-1)>", e.n>>, Sig(e, "value"))

CrsDevs(l0, e) ==
  IF Has(e, "panic") THEN Panicked(l0, e, "C05")
  ELSE ELet(PCRS(RealSeed, e.n, 6 * e.n + 100), LAMBDA want :
         One(Len(e.out) = e.n /\ Len(want) = e.n /\ \A i \in 1 .. e.n : e.out[i] = want[i], l0, "C05",
             <<"GenerateRandomPoints differs from the specified CRS derivation", e.n>>, Sig(e, "value")) \o
         One(e.n > 256 \/ e.prefix_of_srs, l0, "C05", "the configuration's basis is not a prefix of GenerateRandomPoints", Sig(e, "srs")))

PrecompDevs(l0, e) ==
  IF Has(e, "panic") THEN (IF e.w = 0 THEN <<Dev(l0, "AUX", <<"NewPrecompPoint panicked on window size 0 (not a power of two: an error is specified)", e.panic>>, Sig(e, "w=0"))>>
                           ELSE Panicked(l0, e, IF IsPow2(e.w) THEN "C05" ELSE "AUX"))
  ELSE IF ~IsPow2(e.w) THEN One(e.err, l0, "AUX", <<"NewPrecompPoint accepted a window size that is not a power of two", e.w>>, Sig(e, "window"))
  ELSE IF e.err THEN <<Dev(l0, "C05", <<"NewPrecompPoint rejected a power-of-two window size", e.w>>, Sig(e, "window"))>>
  ELSE One(MExtWellFormed(e.ext) /\ EEq(MExtAff(e.ext), EMul(e.s, e.pt)), l0, "C05",
           <<"PrecompPoint.ScalarMul differs from s*P", e.w, e.val, e.val2>>, Sig(e, "value"))

ExtDevs(l0, e) ==
  IF Has(e, "panic") THEN Panicked(l0, e, "C05")
  ELSE ELet(<<MExtFromProj(e.p), IExtOfAffine(e.q)>>, LAMBDA pq :
         One(e.pext = pq[1], l0, "C05", "PointExtendedFromProj: not (X, Y, Z, X*Y/Z)", Sig(e, "fromproj")) \o
         One(e.qneg = IExtNeg(pq[2]), l0, "C05", "PointExtendedNormalized.Neg: not (-x, y, -t)", Sig(e, "neg")) \o
         One(MExtWellFormed(e.sum) /\ MExtAff(e.sum) = EAdd(IAff(e.p), e.q), l0, "C05",
             "ExtendedAddNormalized: result is not the sum on the curve / not a well-formed extended point", Sig(e, "add")) \o
         One(e.sum = IExtAddNormalized(pq[1], pq[2]), l0, "DRIFT", "ExtendedAddNormalized: coordinates differ from the modelled formula", Sig(e, "formula")) \o
         One(e.sum_alias = e.sum, l0, "C05", "ExtendedAddNormalized: receiver aliasing the first operand changes the result", Sig(e, "alias")))

UnsafeDevs(l0, e) ==
  IF Has(e, "panic") THEN Panicked(l0, e, "AUX")
  ELSE ELet(MDecUnsafe(e.buf), LAMBDA want :
         One(e.err = ~want[1], l0, "AUX", <<"SetBytesUnsafe accept/reject differs from: right length, x < p, on the curve", e.val>>, Sig(e, "accept")) \o
         (IF want[1] /\ ~e.err THEN One(e.out = <<want[2][1], want[2][2], N1>>, l0, "AUX", "SetBytesUnsafe: decoded point differs from (x, larger root)", Sig(e, "value")) ELSE <<>>) \o
         One(e.buf_unchanged, l0, "C13", "SetBytesUnsafe modified its input buffer", Sig(e, "buffer")))

OnCurveDevs(l0, e) ==
  IF Has(e, "panic") THEN Panicked(l0, e, "AUX")
  ELSE One(e.out = MIsOnCurve(e.p), l0, "AUX", <<"IsOnCurve differs from the curve equation on (X/Z, Y/Z)", e.val>>, Sig(e, "value"))

UncioDevs(l0, e) ==
  IF Has(e, "panic") THEN Panicked(l0, e, "AUX")
  ELSE One(~e.werr /\ e.n = 2 * WCB /\ e.bytes = MUncWrite(e.pt), l0, "AUX", "WriteUncompressedPoint: not BE(x) o BE(y)", Sig(e, "write")) \o
       One(~e.rerr /\ e.back = e.pt, l0, "AUX", "ReadUncompressedPoint(WriteUncompressedPoint(P)) differs from P", Sig(e, "roundtrip")) \o
       One(~e.rerr2 /\ e.back2 = MUncRead(e.raw2), l0, "AUX", "ReadUncompressedPoint: coordinates are not the reduced big-endian values", Sig(e, "reduce")) \o
       One(e.short_err, l0, "AUX", "ReadUncompressedPoint accepted 63 bytes", Sig(e, "short"))

SameList(xs, ys) == Len(xs) = Len(ys) /\ \A i \in 1 .. Len(xs) : IValid(xs[i]) /\ IValid(ys[i]) /\ EEq(IAff(xs[i]), IAff(ys[i]))
ProofEqDevs(l0, e) ==
  IF Has(e, "panic") THEN Panicked(l0, e, "C10")
  ELSE LET ipaeq == SameList(e.pa.L, e.pb.L) /\ SameList(e.pa.R, e.pb.R) /\ e.pa.a = e.pb.a
           eq    == ipaeq /\ EEq(IAff(e.pa.D), IAff(e.pb.D))
       IN  One(e.equal = eq /\ e.equal_sym = eq, l0, "C10", <<"MultiProof.Equal differs from component-wise equality of group elements and scalar", e.val, e.equal, eq>>, Sig(e, "mp")) \o
           One(e.ipa_equal = ipaeq, l0, "C10", <<"IPAProof.Equal differs from component-wise equality", e.val>>, Sig(e, "ipa")) \o
           One(~Has(e, "bytes_equal") \/ e.bytes_equal = eq, l0, "C10", <<"proofs are Equal but serialise differently (or the reverse)", e.val>>, Sig(e, "bytes"))

HalfR == NShr(NSub(WR, N1), 1)
Sign(a, b) == IF NLt(a, b) THEN -1 ELSE IF a = b THEN 0 ELSE 1
MontR == NPowMod(NOfInt(2), NOfInt(256), WR)
FrDevs(l0, e) ==
  IF Has(e, "panic") THEN Panicked(l0, e, "AUX")
  ELSE LET red == NMod(e.v, WR) IN
    CASE e.val = "lex" -> One(e.out = NLt(HalfR, red), l0, "C15", "LexicographicallyLargest differs from v > (r-1)/2", Sig(e, "lex"))
      [] e.val = "cmp" -> One(e.out = Sign(red, e.y), l0, "C15", "Cmp differs from the order of the integers", Sig(e, "cmp"))
      [] e.val = "bit" -> One(\A i \in 1 .. Len(e.bits) : e.bits[i] = MBit(e.v, i - 1), l0, "AUX", "Bit(i) differs from bit i of the stored words", Sig(e, "bit")) \o
                          One(e.isuint64 = MIsWord(e.v), l0, "AUX", "IsUint64 differs from: stored words < 2^64", Sig(e, "isuint64")) \o
                          One(e.bitlen = NBitLen(e.v), l0, "AUX", "BitLen differs from the bit length of the stored words", Sig(e, "bitlen"))
      [] e.val = "bigint" -> One(e.reg = red, l0, "C15", "ToBigIntRegular differs from the value", Sig(e, "toregular")) \o
                             One(e.raw = e.words /\ e.raw = NMulMod(red, MontR, WR), l0, "C15", "ToBigInt differs from the Montgomery words v * 2^256 mod r", Sig(e, "tomont")) \o
                             One(e.set = red, l0, "C15", "SetBigInt(v) differs from v mod r", Sig(e, "setbigint")) \o
                             One(e.setneg = FNeg(WR, red), l0, "C15", "SetBigInt(-v) differs from -v mod r", Sig(e, "setbigint-neg")) \o
                             One(e.set3 = NMod(e.big3, WR), l0, "C15", "SetBigInt of a value beyond 2^256 differs from its residue", Sig(e, "setbigint-big"))
      [] e.val = "string" -> One(e.str = MString(red), l0, "AUX", <<"String() differs from the decimal form", e.str>>, Sig(e, "string")) \o
                             One(e.dec = MDec(e.v), l0, "DRIFT", "driver: decimal string of v", Sig(e, "dec")) \o
                             One(e.back = red /\ e.backneg = FNeg(WR, red), l0, "AUX", "SetString differs from the (signed) decimal value mod r", Sig(e, "setstring"))
      [] e.val = "iface" -> One(/\ e.outs.element = red /\ e.outs.pointer = red /\ e.outs.string = red /\ e.outs.bigptr = red /\ e.outs.big = red /\ e.outs.bytes = red
                                /\ e.outs.uint64 = NMod(e.u64, WR) /\ e.outs.int = NMod(e.i31, WR)
                                /\ \A k \in {"element", "pointer", "string", "bigptr", "big", "bytes", "uint64", "int"} : ~e.errs[k],
                                l0, "AUX", "SetInterface differs from the value of its argument mod r", Sig(e, "iface")) \o
                            One(e.errs.float, l0, "AUX", "SetInterface accepted an unsupported type", Sig(e, "iface-type"))
      [] e.val = "random" -> One(~e.err /\ NLt(NMod(e.a_words, WR), WR) /\ NLt(e.a_words, WR) /\ NLt(e.b_words, WR) /\ e.a_words # e.b_words, l0, "AUX",
                                 "SetRandom: not below r / two draws equal", Sig(e, "random"))
      [] OTHER -> <<>>

Devs(l0, e) ==
  CASE e.kind = "powers"  -> PowersDevs(l0, e)
    [] e.kind = "crs"     -> CrsDevs(l0, e)
    [] e.kind = "precomp" -> PrecompDevs(l0, e)
    [] e.kind = "ext"     -> ExtDevs(l0, e)
    [] e.kind = "unsafe"  -> UnsafeDevs(l0, e)
    [] e.kind = "oncurve" -> OnCurveDevs(l0, e)
    [] e.kind = "uncio"   -> UncioDevs(l0, e)
    [] e.kind = "proofeq" -> ProofEqDevs(l0, e)
    [] e.kind = "fr"      -> FrDevs(l0, e)
    [] OTHER -> <<>>

Init == l = 1 /\ bad = <<>> /\ cnt = << >>
Next == /\ l <= Len(Trace)
        /\ LET e == Trace[l] IN
             /\ bad' = AddBad(bad, Devs(l, e))
             /\ cnt' = Bump(cnt, e.kind \o (IF e.kind = "fr" THEN "/" \o e.val ELSE ""))
        /\ l' = l + 1
Spec == Init /\ [][Next]_vars
Finished == l = Len(Trace) + 1 => WriteVerdict(l, bad, cnt)
=============================================================================
