------------------------------- MODULE Trace_Poly -------------------------------
(***************************************************************************)
(* Trace specification for ipa/barycentric.go (C18).  The oracle never     *)
(* uses the code's tables: A'(i) comes from its defining product.          *)
(*  divide : the recorded quotient q must satisfy q_i (i-k) = f_i - f_k    *)
(*           for all i # k and sum_i q_i / A'(i) = 0 (degree < 255), which *)
(*           determines it uniquely (its value at k included); f untouched *)
(*  bary   : the recorded coefficients must be A(z)/(A'(i)(z-i)); for the  *)
(*           events marked `full` also the table-free Vandermonde          *)
(*           characterisation sum_i i^j b_i = z^j for all j < 256; the     *)
(*           recorded inner product <f, b> must equal p(z) evaluated in    *)
(*           coefficient (Newton) form                                     *)
(*  tables : every entry equals its definition                             *)
(***************************************************************************)
EXTENDS Real, PolyImpl, TraceLib
VARIABLES l, bad, cnt
vars == <<l, bad, cnt>>
AP == PAprimeVec

DivideDevs(l0, e) ==
  One(Len(e.out) = WDom /\ (\A i \in 1 .. WDom : NLt(e.out[i], WR)) /\ PIsQuotient(AP, e.f, e.idx, e.out), l0, "C18",
      <<"DivideOnDomain: result is not the quotient (f - f(k))/(X - k)", e.idx, e.cls>>, <<"poly", "divide">>) \o
  One(e.f_unchanged, l0, "C13", "DivideOnDomain modified its input polynomial", <<"poly", "divide-input">>)
BaryDevs(l0, e) ==
  One(e.out = PLagrange(AP, e.z), l0, "C18", <<"ComputeBarycentricCoefficients differs from A(z)/(A'(i)(z-i))", e.cls>>, <<"poly", "bary">>) \o
  (IF e.full THEN One(PIsLagrange(e.out, e.z), l0, "C18", <<"barycentric coefficients fail sum_i i^j b_i = z^j", e.cls>>, <<"poly", "bary-vandermonde">>) ELSE <<>>) \o
  One(e.ip = PEval(e.f, e.z), l0, "C18", <<"<f, coefficients> differs from p(z) in coefficient form", e.cls, e.fcls>>, <<"poly", "bary-eval">>)
TableDevs(l0, e) ==
  One(Len(e.bw) = 2 * WDom /\ \A i \in 1 .. WDom : e.bw[i] = AP[i] /\ e.bw[i + WDom] = FInv(WR, AP[i]), l0, "C18",
      "barycentric weight table differs from A'(i) | 1/A'(i)", <<"poly", "table-weights">>) \o
  One(Len(e.inv) = 2 * (WDom - 1) /\ \A k \in 1 .. (WDom - 1) : e.inv[k] = FInv(WR, PFr(k)) /\ e.inv[k + WDom - 1] = FNeg(WR, FInv(WR, PFr(k))), l0, "C18",
      "inverted domain table differs from 1/k | -1/k", <<"poly", "table-inverses">>)

Init == l = 1 /\ bad = <<>> /\ cnt = << >>
Next == /\ l <= Len(Trace)
        /\ LET e == Trace[l]
           IN  /\ bad' = AddBad(bad, CASE e.ev = "divide" -> DivideDevs(l, e) [] e.ev = "bary" -> BaryDevs(l, e) [] e.ev = "bary_pre" -> <<>> [] e.ev = "poly_tables" -> TableDevs(l, e))
               /\ cnt' = Bump(cnt, IF e.ev = "bary" /\ e.full THEN "bary-full" ELSE e.ev)
        /\ l' = l + 1
Spec == Init /\ [][Next]_vars
Finished == l = Len(Trace) + 1 => WriteVerdict(l, bad, cnt)
=============================================================================
