----------------------------- MODULE SelfTestSha -----------------------------
(* The Java override of Crypto!Sha256 equals the pure TLA+ SHA-256 on messages around the padding boundaries
   and on the repository's own transcript vector. *)
EXTENDS Integers, Sequences, TLC, Crypto, Sha256Pure
Msg(n, s) == [i \in 1 .. n |-> (s + 7 * i) % 256]
Lens == {0, 1, 3, 31, 32, 55, 56, 57, 63, 64, 65, 119, 120, 128, 200}
ASSUME \A n \in Lens : Sha256(Msg(n, n)) = Sha256Pure(Msg(n, n))
ASSUME Sha256Pure(<<97, 98, 99>>) = <<186, 120, 22, 191, 143, 1, 207, 234, 65, 65, 64, 222, 93, 174, 34, 35, 176, 3, 97, 163, 150, 23, 122, 156, 180, 16, 255, 97, 242, 0, 21, 173>>
ASSUME PrintT("sha-256 override = pure definition on all test messages")
=============================================================================
