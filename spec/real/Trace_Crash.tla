------------------------------ MODULE Trace_Crash ------------------------------
(***************************************************************************)
(* The specification has no action in which a library call takes the whole *)
(* process down (a panic in a library goroutine, the Go runtime's          *)
(* "all goroutines are asleep - deadlock!", a fatal error).  The runner    *)
(* turns every REPRODUCED crash of the driver into a `crash` event naming  *)
(* the program that was running; a trace containing one is rejected.       *)
(***************************************************************************)
EXTENDS Integers, Sequences, TraceLib
VARIABLES l, bad, cnt
vars == <<l, bad, cnt>>
Prop == IOEnv.VERIF_PROP
Init == l = 1 /\ bad = <<>> /\ cnt = << >>
Next == /\ l <= Len(Trace)
        /\ LET e == Trace[l] IN
             /\ bad' = AddBad(bad, IF e.ev = "crash"
                                   THEN <<Dev(l, Prop, <<"the process crashed (twice) while running this program", e.fam, e.prog, e.text>>, <<"crash", e.fam, e.kind>>)>>
                                   ELSE <<>>)
             /\ cnt' = Bump(cnt, e.ev)
        /\ l' = l + 1
Spec == Init /\ [][Next]_vars
Finished == l = Len(Trace) + 1 => WriteVerdict(l, bad, cnt)
=============================================================================
