---------------------------- MODULE Trace_Transcript ----------------------------
(***************************************************************************)
(* Trace specification for the Fiat-Shamir transcript (C14).  The          *)
(* specification's transcript state (module Transcript) is stepped with    *)
(* every recorded operation; every returned challenge must equal the       *)
(* specification's; points must have been absorbed in canonical encoding   *)
(* whatever their representation (the specification encodes the logged raw *)
(* coordinates itself).  Each program is run twice: the second run differs *)
(* by one edit (or none).  Equal absorbed streams must give equal final    *)
(* challenges, different streams different ones.                           *)
(* The pending-buffer digest read through the hook is an implementation    *)
(* detail: a mismatch is reported as DRIFT, not as a violation.            *)
(***************************************************************************)
EXTENDS Real, EdwardsImpl, TraceLib
VARIABLES l, bad, cnt, t, fin0
vars == <<l, bad, cnt, t, fin0>>

PatBytes(s, n) == [i \in 1 .. n |-> (s + 7 * i) % 256]
MsgOf(e) == IF Has(e.msg, "pat") THEN PatBytes(e.msg.pat, e.msg.len) ELSE e.msg.lit
After(e) ==
  CASE e.op = "new"       -> TNew(e.label)
    [] e.op = "domsep"    -> TDomainSep(t, e.label)
    [] e.op = "msg"       -> TAppend(t, e.label, MsgOf(e))
    [] e.op = "scalar"    -> TAppendScalar(t, e.label, e.sval)
    [] e.op = "point"     -> TAppendPoint(t, e.label, IAff(e.coords))
    [] e.op = "challenge" -> TAfterChallenge(t, e.label)

(* specification-side class: the digest lies within 2^240 of a multiple of r (where the reduction and any shortcut around it are decided) *)
Win240 == Pow2Big(240)
NearKR(stream) ==
  LET d == NFromBytesLE(WHash(stream)) IN
  \E k \in 1 .. 8 : LET kr == NMul(NOfInt(k), WR) IN
     (NLe(kr, d) /\ NLt(d, NAdd(kr, Win240))) \/ (NLt(d, kr) /\ NLe(kr, NAdd(d, Win240)))
Init == l = 1 /\ bad = <<>> /\ cnt = << >> /\ t = TNew(<<>>) /\ fin0 = [stream |-> <<>>, chal |-> N0]
Next ==
  /\ l <= Len(Trace)
  /\ LET e  == Trace[l]
         t2 == After(e)
         isc == e.op = "challenge"
         want == IF isc THEN TChallengeValue(t, e.label) ELSE N0
         stream == IF isc THEN TStream(t, e.label) ELSE <<>>
         final == isc /\ e.last
     IN  /\ t' = t2
         /\ bad' = AddBad(bad,
               (IF isc THEN One(e.out = want, l, "C14", <<"challenge differs from LE(SHA-256(protocol label o pending o label)) mod r", e.prog, e.k>>, <<"transcript", "challenge">>) ELSE <<>>) \o
               One(e.pending_len = Len(t2.p) /\ e.pending_sha = Sha256(t2.p), l, "DRIFT", <<"pending buffer differs from the specification's", e.op, e.pending_len, Len(t2.p)>>, <<"transcript", "pending">>) \o
               One(~Has(e, "arg_unchanged") \/ e.arg_unchanged, l, "C13", <<"transcript operation modified its argument", e.op>>, <<"transcript", "arg">>) \o
               One(~Has(e, "tails_unchanged") \/ e.tails_unchanged, l, "C13", <<"transcript operation wrote into the spare capacity of a label or message slice", e.op>>, <<"transcript", "capacity">>) \o
               (IF final /\ e.run = 1
                THEN One((stream = fin0.stream) = (e.out = fin0.chal), l, "C14",
                         <<"twin sequences: equal streams must give equal challenges, different streams different ones", e.twin, stream = fin0.stream>>, <<"transcript", "twin">>)
                ELSE <<>>))
         /\ fin0' = IF final /\ e.run = 0 THEN [stream |-> stream, chal |-> e.out] ELSE fin0
         /\ cnt' = Bump(cnt, IF final /\ e.run = 1 THEN "twin/" \o e.twin \o (IF stream = fin0.stream THEN "/same" ELSE "/diff") ELSE IF isc /\ NearKR(stream) THEN "challenge-near-kr" ELSE e.op)
  /\ l' = l + 1
Spec == Init /\ [][Next]_vars
Finished == l = Len(Trace) + 1 => WriteVerdict(l, bad, cnt)
=============================================================================
