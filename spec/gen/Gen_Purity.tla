------------------------------- MODULE Gen_Purity -------------------------------
(* Program generator for C13 (`tlc -simulate`): mixed API histories over one shared configuration - commitments, MSMs
   over slices of the SRS itself, proofs and verifications with shared polynomial slices and commitment pointers, IPA,
   group operations through pointers into the SRS, batch helpers, (de)serialisation, transcripts, polynomial routines -
   with a fixed probe call and a fingerprint of the precomputed tables at TLC-chosen positions. *)
EXTENDS Integers, Sequences, TLC, Json, IOUtils, CSV, FiniteSets, SequencesExt
Out   == IOEnv.VERIF_OUT
Depth == IF "VERIF_DEPTH" \in DOMAIN IOEnv THEN atoi(IOEnv.VERIF_DEPTH) ELSE 14
R(X) == RandomElement(X)
Kinds == <<"commit", "msm", "prove", "verify", "ipa", "group", "batch", "codec", "transcript", "poly", "precomp", "crs", "misc", "failing", "failing", "probe", "probe", "probe", "tables">>
VARIABLES prog, done
Init == prog = << >> /\ done = FALSE
Next == \/ /\ ~done /\ Len(prog) < Depth
           /\ prog' = Append(prog, [op |-> Kinds[R(1 .. Len(Kinds))], a |-> R(0 .. 1000)]) /\ done' = FALSE
        \/ /\ ~done /\ Len(prog) = Depth
           /\ CSVWrite("%1$s", <<ToJson([ops |-> prog])>>, Out)
           /\ done' = TRUE /\ prog' = prog
=============================================================================
