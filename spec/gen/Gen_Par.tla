-------------------------------- MODULE Gen_Par --------------------------------
(* Program generator for C20: blocks of the (n, m) grid for parallel.Execute, with and without
   scheduling noise inside the work function, and the default-limit form. *)
EXTENDS Integers, Sequences, TLC, Json, IOUtils, FiniteSets, SequencesExt
Out  == IOEnv.VERIF_OUT
Nlo  == atoi(IOEnv.VERIF_NLO)
Nhi  == atoi(IOEnv.VERIF_NHI)
Mhi  == atoi(IOEnv.VERIF_MHI)
Band == 16
Blocks == {[nlo |-> Nlo + Band * b, nhi |-> (IF Nlo + Band * b + Band - 1 > Nhi THEN Nhi ELSE Nlo + Band * b + Band - 1),
            mlo |-> 1, mhi |-> Mhi, default |-> FALSE, delay |-> (b % 3)] : b \in 0 .. ((Nhi - Nlo) \div Band)}
          \cup {[nlo |-> Nlo, nhi |-> (IF Nhi > Nlo + 400 THEN Nlo + 400 ELSE Nhi), mlo |-> 1, mhi |-> 1, default |-> TRUE, delay |-> 1]}
VARIABLE done
Init == done = FALSE
Next == ~done /\ done' = ndJsonSerialize(Out, SetToSeq(Blocks))
=============================================================================
