-------------------------------- MODULE Gen_Par --------------------------------
(* Program generator for C20: blocks of the (n, m) grid for parallel.Execute, with and without
   scheduling noise inside the work function, and the default-limit form. *)
EXTENDS Integers, Sequences, TLC, Json, IOUtils, FiniteSets, SequencesExt
Out  == IOEnv.VERIF_OUT
Nlo  == atoi(IOEnv.VERIF_NLO)
Nhi  == atoi(IOEnv.VERIF_NHI)
Mhi  == atoi(IOEnv.VERIF_MHI)
Band == 16
B0 == [nlo |-> 0, nhi |-> 0, mlo |-> 1, mhi |-> 1, default |-> FALSE, delay |-> 0, conc |-> 0, nest |-> 0]
(* many callers at once (2, NumCPU+1, 40, 100) and re-entrant calls (depth 1, 2, NumCPU+1, 20), default and explicit limit: emitted once, with the first band *)
Extra == IF Nlo # 0 THEN {}
         ELSE {[B0 EXCEPT !.nlo = n, !.nhi = n + 2, !.mlo = m, !.default = df, !.delay = 1, !.conc = kk] : n \in {1, 17, 64, 1000}, m \in {3}, df \in BOOLEAN, kk \in {2, 17, 40, 100}}
              \cup {[B0 EXCEPT !.nlo = n, !.nhi = n, !.mlo = m, !.default = df, !.nest = dd] : n \in {1, 5, 64}, m \in {3}, df \in BOOLEAN, dd \in {1, 2, 17, 20}}
Blocks == Extra \cup {[conc |-> 0, nest |-> 0, nlo |-> Nlo + Band * b, nhi |-> (IF Nlo + Band * b + Band - 1 > Nhi THEN Nhi ELSE Nlo + Band * b + Band - 1),
            mlo |-> 1, mhi |-> Mhi, default |-> FALSE, delay |-> (b % 3)] : b \in 0 .. ((Nhi - Nlo) \div Band)}
          \cup {[conc |-> 0, nest |-> 0, nlo |-> Nlo, nhi |-> (IF Nhi > Nlo + 400 THEN Nlo + 400 ELSE Nhi), mlo |-> 1, mhi |-> 1, default |-> TRUE, delay |-> 1]}
VARIABLE done
Init == done = FALSE
Next == ~done /\ done' = ndJsonSerialize(Out, SetToSeq(Blocks))
=============================================================================
