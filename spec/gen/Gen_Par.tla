-------------------------------- MODULE Gen_Par --------------------------------
(* Program generator for C20: blocks of the (n, m) grid for parallel.Execute, with and without
   scheduling noise inside the work function, and the default-limit form. *)
EXTENDS Integers, Sequences, TLC, Json, IOUtils, FiniteSets, SequencesExt
Out  == IOEnv.VERIF_OUT
Nlo  == atoi(IOEnv.VERIF_NLO)
Nhi  == atoi(IOEnv.VERIF_NHI)
Mhi  == atoi(IOEnv.VERIF_MHI)
Band == 16
B0 == [nlo |-> 0, nhi |-> 0, mlo |-> 1, mhi |-> 1, default |-> FALSE, delay |-> 0, conc |-> 0, nest |-> 0]
(* many callers at once (2, NumCPU+1, 40, 100) and re-entrant calls (depth 1, 2, NumCPU+1, 20), default and explicit limit: emitted once, with the first band *)
Extra == IF Nlo # 0 THEN {}
         ELSE {[B0 EXCEPT !.nlo = n, !.nhi = n + 2, !.mlo = m, !.default = df, !.delay = 1, !.conc = kk] : n \in {1, 17, 64, 1000}, m \in {3}, df \in BOOLEAN, kk \in {2, 17, 40, 100}}
              \cup {[B0 EXCEPT !.nlo = n, !.nhi = n, !.mlo = m, !.default = df, !.nest = dd] : n \in {1, 5, 64}, m \in {3}, df \in BOOLEAN, dd \in {1, 2, 17, 20}}
(* beyond the dense grid: sparse points with LARGE sizes and LARGE worker limits (limits far above any CPU count are legal: MultiExpConfig.NbTasks
   goes up to 1024) around the powers of two, each limit with its two neighbours: emitted once, with the first band *)
Tier == IF "VERIF_TIER" \in DOMAIN IOEnv THEN IOEnv.VERIF_TIER ELSE "quick"
BigN == {255, 256, 257, 511, 512, 513, 1023, 1024, 1025, 2047, 2048, 2049, 4097, 5003, 65537} \cup (IF Tier = "quick" THEN {} ELSE {3000, 10007, 100003, 1048577})
BigM == {65, 100, 128, 256, 257, 300, 512, 1000, 1024, 4096, 65536} \cup (IF Tier = "quick" THEN {} ELSE {2000, 16384, 1048576})
Sparse == IF Nlo # 0 THEN {}
          ELSE {[B0 EXCEPT !.nlo = n, !.nhi = n, !.mlo = m - 1, !.mhi = m + 1] : n \in BigN, m \in BigM}
Blocks == Extra \cup Sparse \cup {[conc |-> 0, nest |-> 0, nlo |-> Nlo + Band * b, nhi |-> (IF Nlo + Band * b + Band - 1 > Nhi THEN Nhi ELSE Nlo + Band * b + Band - 1),
            mlo |-> 1, mhi |-> Mhi, default |-> FALSE, delay |-> (b % 3)] : b \in 0 .. ((Nhi - Nlo) \div Band)}
          \cup {[conc |-> 0, nest |-> 0, nlo |-> Nlo, nhi |-> (IF Nhi > Nlo + 400 THEN Nlo + 400 ELSE Nhi), mlo |-> 1, mhi |-> 1, default |-> TRUE, delay |-> 1]}
VARIABLE done
Init == done = FALSE
Next == ~done /\ done' = ndJsonSerialize(Out, SetToSeq(Blocks))
=============================================================================
