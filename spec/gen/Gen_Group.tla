------------------------------- MODULE Gen_Group -------------------------------
(***************************************************************************)
(* Program generator for the group family (C07 C08 C11 C13 C19): API       *)
(* histories over a pool of element slots.  Run with `tlc -simulate`:      *)
(* every behaviour of depth Depth is one program (a sequence of API calls  *)
(* with slot arguments - every receiver/operand aliasing pattern - and     *)
(* symbolic scalar classes), written as one JSON line when complete.       *)
(* The model tracks only what it needs to keep programs meaningful: which  *)
(* slots hold a valid element, the all-zero value or an un-normalisable    *)
(* (Z = 0) value.                                                          *)
(***************************************************************************)
EXTENDS Integers, Sequences, TLC, Json, IOUtils, CSV, FiniteSets, SequencesExt

Out   == IOEnv.VERIF_OUT
Depth == IF "VERIF_DEPTH" \in DOMAIN IOEnv THEN atoi(IOEnv.VERIF_DEPTH) ELSE 14
NS    == 5
S     == 1 .. NS
ScalarCl == {"0", "1", "2", "3", "r-1", "r-2", "h", "2^64", "2^128", "2^252", "2^64-1", "2^63", "2^128-1", "2^192-1", "lam", "lam+1", "lam-1", "-lam", "rnd1", "rnd2", "rnd3", "rnd4", "mont:1", "mont:2^64-1", "mont:2^64", "asmont:1", "asmont:-1", "2^64+1", "2^128+1", "2^192+1", "2^69+2^5", "2^200+2^8", "3bits"}
ZCl   == {"2", "p-1", "rnd1", "rnd2"}
Lists == {<<a>> : a \in S} \cup {<<a, b>> : a \in S, b \in S} \cup {<<a, b, c>> : a \in S, b \in S, c \in S}
         \cup {<<a, b, a, c, b>> : a \in S, b \in S, c \in S} \cup {<<>>}

Op(o, d, a, b, s, l) == [op |-> o, d |-> d, a |-> a, b |-> b, s |-> s, l |-> l]

VARIABLES prog, st          \* st[i] \in {"ok", "zero", "inf"}
vars == <<prog, st>>

Init == /\ prog = << Op("gen", 1, 0, 0, "", <<>>), Op("id", 2, 0, 0, "", <<>>), Op("srs", 3, 0, 0, "", <<>>),
                     Op("srs", 4, 255, 0, "", <<>>), Op("smul", 5, 1, 0, "rnd1", <<>>) >>
        /\ st = [i \in S |-> "ok"]

Ok(i) == st[i] = "ok"
Step(o, newst) == prog' = Append(prog, o) /\ st' = newst
Keep == st
R(X) == RandomElement(X)       \* parameters are drawn by TLC's simulator; the op kind is the nondeterministic choice
OkSlots == {i \in S : Ok(i)}
AllOk(l) == \A i \in 1 .. Len(l) : Ok(l[i])
RList(X) == [i \in 1 .. R({0, 1, 2, 3, 4, 5, 6}) |-> R(X)]
Next ==
  \/ /\ Len(prog) < Depth /\ prog # <<>>
     /\ \/ \E o \in {"add", "sub", "addmixed"} :
             \E d \in {R(S)}, a \in {R(OkSlots)}, b \in {R(OkSlots)} : Step(Op(o, d, a, b, "", <<>>), [st EXCEPT ![d] = "ok"])
        \/ \E o \in {"double", "neg", "set", "encdec", "encdecu"} :
             \E d \in {R(S)}, a \in {R(OkSlots)} : Step(Op(o, d, a, 0, "", <<>>), [st EXCEPT ![d] = "ok"])
        \/ \E d \in {R(S)}, a \in {R(OkSlots)} : Step(Op("smul", d, a, 0, R(ScalarCl), <<>>), [st EXCEPT ![d] = "ok"])
        \/ \E o \in {"normalize", "flip"} : \E d \in {R(OkSlots)} : Step(Op(o, d, 0, 0, "", <<>>), Keep)
        \/ \E d \in {R(OkSlots)} : Step(Op("rescale", d, 0, 0, R(ZCl), <<>>), Keep)
        \/ \E d \in {R(S)} : Step(Op("id", d, 0, 0, "", <<>>), [st EXCEPT ![d] = "ok"])
        \/ \E d \in {R(S)} : Step(Op("srs", d, R({0, 1, 4, 5, 128, 255}), 0, "", <<>>), [st EXCEPT ![d] = "ok"])
        \* a point built from the y side: canonical y at the boundary of the sign choice ((p-1)/2 limb by limb, p-1)
        \/ \E d \in {R(S)} : Step(Op("ypt", d, R(0 .. 63), 0, R({"yhalf", "yhalf64", "yhalf128", "yhalf192", "ytop", "ydyad", "ydyad", "ypat"}), <<>>), [st EXCEPT ![d] = "ok"])
        \* a distinguished element (G, -G, 2G, identity, SRS[0], -SRS[0]) in a chosen raw representative
        \/ \E d \in {R(S)} : Step(Op("spt", d, R(0 .. 5), 0, R({"norm", "flip", "proj", "projflip"}), <<>>), [st EXCEPT ![d] = "ok"])
        \* a point built from its ratio x/y, at a boundary of the reduction into the scalar field (next to k*r, to p, to 0, to a limb boundary)
        \/ \E d \in {R(S)} : Step(Op("rpt", d, R(0 .. 40), 0, R({"kr-", "kr+", "krlow", "nearp", "small", "limb"}), <<>>), [st EXCEPT ![d] = "ok"])
        \/ \E d \in {R(S)} : Cardinality(OkSlots \ {d}) >= 3 /\ Step(Op("zero", d, 0, 0, "", <<>>), [st EXCEPT ![d] = "zero"])
        \/ \E d \in {R(S)} : Cardinality(OkSlots \ {d}) >= 3 /\ Step(Op("inf", d, 0, 0, "", <<>>), [st EXCEPT ![d] = "inf"])
        \* batch helpers over pointer lists with arbitrary aliasing (C19); bnorm may meet an un-normalisable element
        \/ \E o \in {"bnorm", "bbytes", "bunc", "bmap"} :
             \E l \in {RList(IF o = "bnorm" THEN {i \in S : st[i] # "zero"} ELSE OkSlots)} : Step(Op(o, 0, 0, 0, "", l), Keep)
        \* batch helpers on a private heap: lengths around the worker-partition boundaries (NumCPU, 32, 256), pointer aliasing
        \* patterns, optionally one un-normalisable cell at a TLC-chosen position (C19)
        \* (a random choice must be bound through a singleton set: LET would draw again at every reference)
        \/ \E o \in {"Bnorm", "Bbytes", "Bunc", "Bmap"} :
             \E n \in {R({0, 1, 2, 3, 15, 16, 17, 31, 32, 33, 34, 64, 100, 255, 256, 257, 300})} :
               \E bad \in {IF o = "Bnorm" /\ n > 0 /\ R({0, 1}) = 1 THEN R(1 .. (IF n > 0 THEN n ELSE 1)) ELSE 0} :
                 \* d > 0: structured Z coordinates whose PRODUCT is one although no element is normalised (all -1, reciprocal pairs, a compensating cell)
                 Step(Op(o, R({0, 0, 0, 1, 2, 3}), n, bad, R({"distinct", "allsame", "pairs", "firstlast", "cycle3", "reverse"}), <<>>), Keep)
        \* variable-base MSM over pool slots
        \/ \E d \in {R(S)}, l \in {RList(OkSlots)} : Step(Op("msm", d, R({0, 1, 3, 16}), R({0, 1}), R({"mix1", "mix2", "small", "zero"}), l), [st EXCEPT ![d] = "ok"])
  \/ /\ Len(prog) = Depth
     /\ CSVWrite("%1$s", <<ToJson([ops |-> prog])>>, Out)
     /\ prog' = <<>> /\ st' = st
=============================================================================
