------------------------------- MODULE Gen_Group -------------------------------
(***************************************************************************)
(* Program generator for the group family (C07 C08 C11 C13 C19): API       *)
(* histories over a pool of element slots.  Run with `tlc -simulate`:      *)
(* every behaviour of depth Depth is one program (a sequence of API calls  *)
(* with slot arguments - every receiver/operand aliasing pattern - and     *)
(* symbolic scalar classes), written as one JSON line when complete.       *)
(* The model tracks only what it needs to keep programs meaningful: which  *)
(* slots hold a valid element, the all-zero value or an un-normalisable    *)
(* (Z = 0) value.                                                          *)
(***************************************************************************)
EXTENDS Integers, Sequences, TLC, Json, IOUtils, CSV, FiniteSets, SequencesExt

Out   == IOEnv.VERIF_OUT
Depth == IF "VERIF_DEPTH" \in DOMAIN IOEnv THEN atoi(IOEnv.VERIF_DEPTH) ELSE 14
NS    == 5
S     == 1 .. NS
ScalarCl == {"0", "1", "2", "3", "r-1", "r-2", "h", "2^64", "2^128", "2^252", "lam", "lam+1", "lam-1", "-lam", "rnd1", "rnd2", "rnd3", "rnd4"}
ZCl   == {"2", "p-1", "rnd1", "rnd2"}
Lists == {<<a>> : a \in S} \cup {<<a, b>> : a \in S, b \in S} \cup {<<a, b, c>> : a \in S, b \in S, c \in S}
         \cup {<<a, b, a, c, b>> : a \in S, b \in S, c \in S} \cup {<<>>}

Op(o, d, a, b, s, l) == [op |-> o, d |-> d, a |-> a, b |-> b, s |-> s, l |-> l]

VARIABLES prog, st          \* st[i] \in {"ok", "zero", "inf"}
vars == <<prog, st>>

Init == /\ prog = << Op("gen", 1, 0, 0, "", <<>>), Op("id", 2, 0, 0, "", <<>>), Op("srs", 3, 0, 0, "", <<>>),
                     Op("srs", 4, 255, 0, "", <<>>), Op("smul", 5, 1, 0, "rnd1", <<>>) >>
        /\ st = [i \in S |-> "ok"]

Ok(i) == st[i] = "ok"
Step(o, newst) == prog' = Append(prog, o) /\ st' = newst
Keep == st
R(X) == RandomElement(X)       \* parameters are drawn by TLC's simulator; the op kind is the nondeterministic choice
OkSlots == {i \in S : Ok(i)}
AllOk(l) == \A i \in 1 .. Len(l) : Ok(l[i])
RList(X) == LET n == R({0, 1, 2, 3, 4, 5, 6}) IN [i \in 1 .. n |-> R(X)]
Next ==
  \/ /\ Len(prog) < Depth /\ prog # <<>>
     /\ \/ \E o \in {"add", "sub", "addmixed"} :
             LET d == R(S)  a == R(OkSlots)  b == R(OkSlots) IN Step(Op(o, d, a, b, "", <<>>), [st EXCEPT ![d] = "ok"])
        \/ \E o \in {"double", "neg", "set", "encdec", "encdecu"} :
             LET d == R(S)  a == R(OkSlots) IN Step(Op(o, d, a, 0, "", <<>>), [st EXCEPT ![d] = "ok"])
        \/ LET d == R(S)  a == R(OkSlots) IN Step(Op("smul", d, a, 0, R(ScalarCl), <<>>), [st EXCEPT ![d] = "ok"])
        \/ \E o \in {"normalize", "flip"} : LET d == R(OkSlots) IN Step(Op(o, d, 0, 0, "", <<>>), Keep)
        \/ LET d == R(OkSlots) IN Step(Op("rescale", d, 0, 0, R(ZCl), <<>>), Keep)
        \/ LET d == R(S) IN Step(Op("id", d, 0, 0, "", <<>>), [st EXCEPT ![d] = "ok"])
        \/ LET d == R(S) IN Step(Op("srs", d, R({0, 1, 4, 5, 128, 255}), 0, "", <<>>), [st EXCEPT ![d] = "ok"])
        \/ LET d == R(S) IN Cardinality(OkSlots \ {d}) >= 3 /\ Step(Op("zero", d, 0, 0, "", <<>>), [st EXCEPT ![d] = "zero"])
        \/ LET d == R(S) IN Cardinality(OkSlots \ {d}) >= 3 /\ Step(Op("inf", d, 0, 0, "", <<>>), [st EXCEPT ![d] = "inf"])
        \* batch helpers over pointer lists with arbitrary aliasing (C19); bnorm may meet an un-normalisable element
        \/ \E o \in {"bnorm", "bbytes", "bunc", "bmap"} :
             LET l == RList(IF o = "bnorm" THEN {i \in S : st[i] # "zero"} ELSE OkSlots) IN Step(Op(o, 0, 0, 0, "", l), Keep)
        \* variable-base MSM over pool slots
        \/ LET d == R(S)  l == RList(OkSlots) IN Step(Op("msm", d, R({0, 1, 3, 16}), R({0, 1}), R({"mix1", "mix2", "small", "zero"}), l), [st EXCEPT ![d] = "ok"])
  \/ /\ Len(prog) = Depth
     /\ CSVWrite("%1$s", <<ToJson([ops |-> prog])>>, Out)
     /\ prog' = <<>> /\ st' = st
=============================================================================
