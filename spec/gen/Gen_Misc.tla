-------------------------------- MODULE Gen_Misc --------------------------------
(* Program generator for the misc family (spec/core/Misc.tla): VERIF_PART selects the kinds (all | c05 | c10 | c15). *)
EXTENDS Integers, Sequences, TLC, Json, IOUtils, FiniteSets, SequencesExt
Tier == IF "VERIF_TIER" \in DOMAIN IOEnv THEN IOEnv.VERIF_TIER ELSE "quick"
Part == IF "VERIF_PART" \in DOMAIN IOEnv THEN IOEnv.VERIF_PART ELSE "all"
Out  == IOEnv.VERIF_OUT
Quick == Tier = "quick"
Blank == [kind |-> "", n |-> 0, w |-> 0, val |-> "", val2 |-> "", rep |-> 0]
Reps(q, t) == 1 .. (IF Quick THEN q ELSE t)
Pts   == {"gen", "id", "idtors", "srs0", "srs255", "yhalf", "rnd"}
Scal  == {"0", "1", "2", "r-1", "r-2", "h", "2^64", "2^64-1", "2^63", "2^128", "2^128-1", "2^192-1", "2^252", "rnd1", "rnd2", "rnd3"}
CVals == {"0", "1", "255", "2^63", "2^64-1", "2^64", "2^127", "2^128-1", "2^191", "2^192-1", "h-1", "h", "h+1", "r-1", "r", "r+1", "2r", "p-1", "2^256-1", "2^255", "3r", "8r", "8r-1", "r~64", "r~128", "r~192", "r+2^64", "r-2^64", "r+2^128", "r-2^128", "r+2^192", "r-2^192", "rnd"}

Powers  == {[Blank EXCEPT !.kind = "powers", !.n = n, !.val = v] : n \in {0, 1, 2, 5, 256, 257, 600}, v \in {"0", "1", "2", "r-1", "rnd1"}}
Crs     == {[Blank EXCEPT !.kind = "crs", !.n = n] : n \in (IF Quick THEN {0, 1, 5, 256} ELSE {0, 1, 2, 5, 255, 256, 257, 300, 1000})}
Precomp == {[Blank EXCEPT !.kind = "precomp", !.w = w, !.val = p, !.val2 = s, !.rep = r] :
              w \in {1, 2, 4, 8}, p \in (IF Quick THEN {"gen", "srs255", "idtors", "yhalf"} ELSE Pts), s \in Scal, r \in Reps(1, 4)}
           \cup {[Blank EXCEPT !.kind = "precomp", !.w = 16, !.val = "srs0", !.val2 = s, !.rep = r] : s \in Scal, r \in Reps(1, 4)}
PrecompBad == {[Blank EXCEPT !.kind = "precomp", !.w = w, !.val = "gen", !.val2 = "rnd1"] : w \in {0, 3, 5, 6, 7, 12, 24}}
Ext     == {[Blank EXCEPT !.kind = "ext", !.val = p, !.val2 = q, !.rep = r] : p \in Pts, q \in Pts, r \in Reps(4, 16)}
Unsafe  == {[Blank EXCEPT !.kind = "unsafe", !.val = c, !.rep = r] :
              c \in {"valid", "xplusp", "nonsubgroup", "offcurve", "random", "zero", "one", "p-1", "p", "max", "small", "short", "long", "empty", "yhalf", "yhalf64", "ytop"}, r \in Reps(4, 200)}
OnCurve == {[Blank EXCEPT !.kind = "oncurve", !.val = c, !.rep = r] : c \in Pts \cup {"zero", "inf", "offcurve", "nonsubgroup"}, r \in Reps(4, 40)}
Uncio   == {[Blank EXCEPT !.kind = "uncio", !.val = p, !.rep = r] : p \in Pts, r \in Reps(2, 40)}
ProofEq == {[Blank EXCEPT !.kind = "proofeq", !.val = c, !.n = n] : c \in {"same", "other", "D", "Dproj", "a", "lenL", "lenR", "swapLR"}, n \in {0}}
           \cup {[Blank EXCEPT !.kind = "proofeq", !.val = c, !.n = n] : c \in {"L", "Lproj", "R"}, n \in (IF Quick THEN {0, 7} ELSE 0 .. 7)}
Fr      == {[Blank EXCEPT !.kind = "fr", !.val = f, !.val2 = v, !.rep = r] : f \in {"lex", "cmp", "bit", "bigint", "string", "iface"}, v \in CVals, r \in Reps(2, 30)}
           \cup {[Blank EXCEPT !.kind = "fr", !.val = "cmp", !.val2 = v, !.rep = r] : v \in CVals, r \in 1 .. 13}      \* every second operand class
           \cup {[Blank EXCEPT !.kind = "fr", !.val = "random", !.val2 = "0", !.rep = r] : r \in Reps(3, 200)}
Pats(pre) == {pre \o a \o b \o c \o d : a \in {"m", "e", "p"}, b \in {"m", "e", "p"}, c \in {"m", "e", "p"}, d \in {"m", "e", "p"}}
FrPats  == {[Blank EXCEPT !.kind = "fr", !.val = "lex", !.val2 = v, !.rep = 1] : v \in Pats("H:")}
           \cup {[Blank EXCEPT !.kind = "fr", !.val = "cmp", !.val2 = v, !.rep = r] : v \in Pats("L:"), r \in {1, 4}}
FrC15   == {c \in Fr : c.val \in {"lex", "cmp", "bigint"}} \cup FrPats

Cases == IF Part = "c05" THEN Crs \cup Precomp \cup Ext
         ELSE IF Part = "c10" THEN ProofEq
         ELSE IF Part = "c15" THEN FrC15
         ELSE Powers \cup Crs \cup Precomp \cup PrecompBad \cup Ext \cup Unsafe \cup OnCurve \cup Uncio \cup ProofEq \cup Fr \cup FrPats
VARIABLE done
Init == done = FALSE
Next == ~done /\ done' = ndJsonSerialize(Out, SetToSeq(Cases))
=============================================================================
