-------------------------------- MODULE Gen_Poly --------------------------------
(* Program generator for C18: polynomial classes x domain indices for DivideOnDomain (quick: boundary indices and a
   seeded sample; thorough: ALL 256 indices), polynomial x point classes for the barycentric coefficients, and one dump
   of the weight tables.  Index lists are split in chunks so that the driver's events spread over the shards. *)
EXTENDS Integers, Sequences, TLC, Json, IOUtils, FiniteSets, SequencesExt
Tier == IF "VERIF_TIER" \in DOMAIN IOEnv THEN IOEnv.VERIF_TIER ELSE "quick"
Seed == IF "VERIF_SEED" \in DOMAIN IOEnv THEN atoi(IOEnv.VERIF_SEED) ELSE 1
Out  == IOEnv.VERIF_OUT
Blank == [kind |-> "", f |-> "", j |-> 0, k |-> <<>>, z |-> "", full |-> FALSE]
QuickIdx == <<0, 1, 54, 55, 127, 128, 200, 201, 254, 255, (Seed * 37) % 256, (Seed * 91 + 13) % 256>>
Chunks == IF Tier = "quick" THEN {QuickIdx} ELSE {[i \in 1 .. 16 |-> 16 * c + i - 1] : c \in 0 .. 15}
FCl == {<<"random", 1>>, <<"random", 2>>, <<"unit", 0>>, <<"unit", 255>>, <<"unit", 128>>, <<"unitmax", 77>>, <<"const", 0>>, <<"x255", 0>>,
        <<"max", 0>>, <<"linear", 5>>, <<"sparse", 3>>, <<"small", 4>>, <<"zero", 0>>,
        \* shaped relative to the index divided at
        <<"rel:unit-1", 0>>, <<"rel:unit+1", 0>>, <<"rel:step", 0>>, <<"rel:plateau", 0>>, <<"rel:prefix", 0>>}
        \cup (IF Tier = "quick" THEN {} ELSE {<<"random", s>> : s \in 3 .. 10} \cup {<<"unit", s>> : s \in {1, 2, 100, 127, 129, 200, 254}})
ZCl == {"256", "257", "2^64", "r-1", "r-2", "h", "rnd1", "rnd2", "300", "65536", "2^64+5", "2^128+255", "2^192+5"} \cup (IF Tier = "quick" THEN {} ELSE {"rnd3", "rnd4", "rnd5", "rnd6", "511", "512", "1000000"})
Cases == {[Blank EXCEPT !.kind = "divide", !.f = fc[1], !.j = fc[2], !.k = ch] : fc \in FCl, ch \in Chunks}
         \cup {[Blank EXCEPT !.kind = "bary", !.z = z, !.f = fc[1], !.j = fc[2], !.full = (z \in {"256", "r-1", "rnd1"} /\ fc[1] = "random" /\ fc[2] = 1)] :
                 z \in ZCl, fc \in {<<"random", 1>>, <<"x255", 0>>, <<"unit", 255>>, <<"max", 0>>}}
         \* histories: a call OUTSIDE the property's quantification (z inside the domain: index j; the result is recorded, not judged), then judged calls
         \cup {[Blank EXCEPT !.kind = "baryhist", !.j = j, !.z = z, !.f = "random", !.full = (j = 5)] :
                 j \in {0, 5, 128, 255} \cup (IF Tier = "quick" THEN {} ELSE {1, 2, 64, 127, 129, 200, 254}), z \in {"256", "257", "r-1", "rnd1"}}
         \cup {[Blank EXCEPT !.kind = "tables"]}
VARIABLE done
Init == done = FALSE
Next == ~done /\ done' = ndJsonSerialize(Out, SetToSeq(Cases))
=============================================================================
