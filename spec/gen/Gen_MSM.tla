-------------------------------- MODULE Gen_MSM --------------------------------
(***************************************************************************)
(* Program generator for C09.  The sizes n are taken from the small-world  *)
(* chooser model itself: every n at which the window chosen by bestC       *)
(* changes (and its neighbours), besides the structural sizes around the   *)
(* worker-partition and chunk boundaries.                                  *)
(***************************************************************************)
EXTENDS MSMImpl, TLC, Json, IOUtils
Tier == IF "VERIF_TIER" \in DOMAIN IOEnv THEN IOEnv.VERIF_TIER ELSE "quick"
Out  == IOEnv.VERIF_OUT
MaxT == IF Tier = "quick" THEN 700 ELSE 5200
Thresholds == {n \in 1 .. MaxT : BestC(n) # BestC(n - 1)}
Around(S) == UNION {{n - 1, n, n + 1} : n \in S}
Base == {0, 1, 2, 3, 4, 5, 7, 8, 15, 16, 17, 31, 32, 33, 63, 64, 65, 127, 128, 129, 255, 256, 257}
Ns == {n \in Base \cup Around(Thresholds) \cup (IF Tier = "quick" THEN {} ELSE {511, 512, 513, 1000, 2048, 4096, 5000}) : n >= 0}
Ts == IF Tier = "quick" THEN {0, 1, 3, 16, 64, 1024} ELSE {0, 1, 2, 3, 5, 8, 16, 17, 63, 64, 65, 128, 1024}
Blank == [kind |-> "api", n |-> 0, tasks |-> 0, mont |-> TRUE, small |-> 0, points |-> "srs", scalars |-> "rnd", c |-> 0, split |-> FALSE]
PCl == {"srs", "dup", "withid", "flip", "proj", "same", "neg"}
SCl == {"rnd", "zero", "one", "edge", "ones", "half", "oneword", "limbs", "mont", "asmont", "aligned"}
Cases ==
  {[Blank EXCEPT !.n = n, !.tasks = t, !.mont = m] : n \in Ns, t \in Ts, m \in BOOLEAN}
  \cup {[Blank EXCEPT !.n = n, !.tasks = t, !.points = p, !.scalars = s, !.mont = (n % 2 = 1)] : n \in {1, 2, 3, 17, 64, 256, 300}, t \in {0, 3, 16}, p \in PCl, s \in SCl}
  \cup {[Blank EXCEPT !.n = n, !.tasks = t, !.small = sm, !.mont = m] : n \in {10, 20, 100, 257, 600}, t \in {1, 16, 64}, sm \in {9, 10, 11, 50, 100}, m \in BOOLEAN}
  \cup {[Blank EXCEPT !.kind = "inner", !.c = c, !.split = sp, !.n = n, !.scalars = s, !.mont = (c % 2 = 0)] :
          c \in {4, 5, 6, 7, 8, 9, 10, 11, 12, 13, 14, 15, 16}, sp \in BOOLEAN, n \in {1, 2, 37, 300}, s \in {"rnd", "edge", "ones", "half", "oneword", "limbs"}}
  \* bucket collisions for every window width: repeated points (and P next to -P) with equal digits meet in one bucket
  \cup {[Blank EXCEPT !.kind = "inner", !.c = c, !.split = sp, !.n = n, !.points = p, !.scalars = s, !.mont = (c % 2 = 1)] :
          c \in {4, 5, 6, 7, 8, 9, 10, 11, 12, 13, 14, 15, 16} \cup (IF Tier = "quick" THEN {} ELSE {20, 21}), sp \in {FALSE}, n \in {2, 37},
          p \in {"dup", "same", "withid", "neg"}, s \in {"ones", "rnd", "half", "edge"}}
  \cup {[Blank EXCEPT !.n = n, !.tasks = t, !.points = p, !.scalars = s] : n \in (IF Tier = "quick" THEN {} ELSE {4200}), t \in {1, 16}, p \in {"dup", "same", "neg"}, s \in {"ones", "rnd"}}
  \cup {[Blank EXCEPT !.kind = "inner", !.c = c, !.split = sp, !.n = 37, !.scalars = "rnd"] : c \in {20, 21}, sp \in (IF Tier = "quick" THEN {TRUE} ELSE BOOLEAN)}
  \* one-word and limb-boundary scalars at sizes where each window width c divides / does not divide 64 gets chosen
  \cup {[Blank EXCEPT !.n = n, !.tasks = t, !.scalars = s, !.mont = m] : n \in {1, 7, 33, 100, 1000}, t \in {1, 16}, s \in {"oneword", "limbs"}, m \in BOOLEAN}
  \cup {[Blank EXCEPT !.kind = "mismatch", !.n = n, !.tasks = 3] : n \in {1, 2, 256}}
  \* histories of large calls (1024 is where a 32-byte-per-entry buffer becomes a "large object"; 300: the largest everyday size)
  \cup {[Blank EXCEPT !.kind = "history", !.n = n, !.tasks = t, !.mont = m] : n \in (IF Tier = "quick" THEN {300, 1100} ELSE {300, 1024, 1100, 2100, 4200}), t \in {0, 16}, m \in BOOLEAN}
  \* 3 / 10 / 40 rejected calls (length mismatch, through MultiExp, MultiScalar and MultiExpAffine), then well-formed calls under a watchdog
  \cup {[Blank EXCEPT !.kind = "mismatchhist", !.n = n, !.tasks = t] : n \in {3, 10, 40}, t \in {0, 3}}
  \* the same slices passed again after in-place changes
  \cup {[Blank EXCEPT !.kind = "reuse", !.n = n, !.tasks = t] : n \in {1, 2, 8, 64, 255, 256, 257, 300}, t \in {0, 1, 16}}
  \cup {[Blank EXCEPT !.kind = "multiscalar", !.n = n, !.points = p] : n \in {0, 1, 2, 3, 128, 256}, p \in {"srs", "proj", "withid"}}
VARIABLE done
Init == done = FALSE
Next == ~done /\ done' = ndJsonSerialize(Out, SetToSeq(Cases))
=============================================================================
