------------------------------- MODULE Gen_Proof -------------------------------
(***************************************************************************)
(* Program generator for the proof family (C01 C02 C03 C04 C10).           *)
(*  mp    opening shapes: number of openings (1..4, 7, around the worker   *)
(*        count, 100, 300), evaluation-index patterns over the 256-point   *)
(*        domain (repeats, gaps, both ends), polynomial assignment, shared *)
(*        commitment pointers, representation of the commitments, label;   *)
(*        each with a rotating subset (thorough: all) of the perturbations *)
(*        of the statement / proof for the verifier                        *)
(*  ipa   polynomial x evaluation point (in/out of the domain, boundary    *)
(*        255|256) x claimed results                                       *)
(*  read  byte-string class x reader behaviour;  write: failing call       *)
(***************************************************************************)
EXTENDS Integers, Sequences, TLC, Json, IOUtils, FiniteSets, SequencesExt
Tier == IF "VERIF_TIER" \in DOMAIN IOEnv THEN IOEnv.VERIF_TIER ELSE "quick"
Seed == IF "VERIF_SEED" \in DOMAIN IOEnv THEN atoi(IOEnv.VERIF_SEED) ELSE 1
Part == IF "VERIF_PART" \in DOMAIN IOEnv THEN IOEnv.VERIF_PART ELSE "all"
Out  == IOEnv.VERIF_OUT
NCpu == IF "VERIF_NCPU" \in DOMAIN IOEnv THEN atoi(IOEnv.VERIF_NCPU) ELSE 16
Quick == Tier = "quick"

PolyTab == << [cls |-> "random", j |-> 1], [cls |-> "small", j |-> 2], [cls |-> "zero", j |-> 0], [cls |-> "max", j |-> 0],
              [cls |-> "unit", j |-> 255], [cls |-> "const", j |-> 3], [cls |-> "x255", j |-> 0], [cls |-> "sparse", j |-> 4],
              \* an all-zero half of the (folded) vector in IPA round 7-j: entries only where bit j of the index is set / clear
              [cls |-> "bithi", j |-> 7], [cls |-> "bithi", j |-> 0], [cls |-> "bitlo", j |-> 3],
              [cls |-> "montsmall", j |-> 0] >>      \* every evaluation has small stored (Montgomery) words
HalfPolys == {[cls |-> c, j |-> j] : c \in {"bithi", "bitlo"}, j \in 0 .. 7}
Reps == <<"norm", "proj", "flip", "projflip">>

(* small explicit shapes *)
SmallZs == { <<0>>, <<255>>, <<128>>, <<77>>,
             <<0, 0>>, <<0, 255>>, <<255, 0>>, <<5, 200>>, <<127, 128>>, <<200, 200>>,
             <<5, 200, 5>>, <<0, 1, 2>>, <<255, 255, 255>>, <<254, 255, 0>>, <<1, 1, 200>>,
             <<0, 255, 0, 255>>, <<5, 5, 200, 200>>, <<0, 1, 254, 255>>, <<77, 77, 77, 77>>,
             <<5, 200, 5, 255, 0, 200, 77>> }
BigN == IF Quick THEN {NCpu - 1, NCpu, NCpu + 1, 2 * NCpu + 3} ELSE {NCpu - 1, NCpu, NCpu + 1, 2 * NCpu + 3, 5, 31, 33, 64, 100, 300}
Pattern(n, name) ==
  CASE name = "same"   -> [i \in 1 .. n |-> 9]
    [] name = "cycle"  -> [i \in 1 .. n |-> (i - 1) % 256]
    [] name = "two"    -> [i \in 1 .. n |-> IF i % 2 = 0 THEN 0 ELSE 255]
    [] name = "blocks" -> [i \in 1 .. n |-> ((i - 1) \div 4) % 256]
    [] name = "tail"   -> [i \in 1 .. n |-> IF i = n THEN 254 ELSE 3]        \* the last opening alone at its index
    [] name = "spread" -> [i \in 1 .. n |-> ((i * 37 + Seed) % 256)]
    [] name = "same+"  -> [i \in 1 .. n |-> IF i <= 256 THEN 9 ELSE (i * 37) % 256]   \* exactly 256 openings at one index, the rest elsewhere
BigZs == {Pattern(n, p) : n \in {k \in BigN : k >= 1}, p \in (IF Quick THEN {"two", "spread"} ELSE {"same", "cycle", "two", "blocks", "tail", "spread"})}

PolyAssign(n, name) == CASE name = "one" -> [i \in 1 .. n |-> 0]
                         [] name = "cycle" -> [i \in 1 .. n |-> (i - 1) % Len(PolyTab)]
                         [] name = "pair" -> [i \in 1 .. n |-> IF i % 2 = 0 THEN 1 ELSE 0]
                         [] name = "zeros" -> [i \in 1 .. n |-> <<4, 0, 7, 5, 4>>[((i - 1) % 5) + 1]]     \* unit, random, sparse, const, unit: many zero evaluations with non-identity commitments
Ops(zs, pa, share, repmode) ==
  [i \in 1 .. Len(zs) |->
     [p |-> pa[i], z |-> zs[i],
      share |-> IF share /\ \E k \in 1 .. (i - 1) : pa[k] = pa[i] THEN (CHOOSE k \in 1 .. (i - 1) : pa[k] = pa[i] /\ \A m \in 1 .. (k - 1) : pa[m] # pa[i]) ELSE 0,
      rep |-> IF repmode = "norm" THEN "norm" ELSE Reps[((i + (IF repmode = "mixed" THEN 0 ELSE 1)) % 4) + 1]]]

Pt(w, i, t) == [what |-> w, i |-> i, to |-> t]
AllPerturb == << Pt("y", 0, "+1"), Pt("y", 1, "0"), Pt("y", 2, "other"), Pt("y", 0, "r-1"), Pt("z", 0, "+1"), Pt("z", 1, "other"),
                 Pt("C", 0, "+G"), Pt("C", 1, "id"), Pt("C", 0, "neg"), Pt("C", 0, "proj"), Pt("C", 1, "flip"), Pt("Cother", 0, ""),
                 Pt("D", 0, "+G"), Pt("D", 0, "id"), Pt("D", 0, "L1"), Pt("D", 0, "proj"), Pt("D", 0, "flip"),
                 Pt("L", 0, "+G"), Pt("L", 7, "R"), Pt("L", 3, "Lnext"), Pt("L", 5, "proj"), Pt("L", 2, "id"), Pt("R", 0, "+G"), Pt("R", 7, "neg"), Pt("R", 4, "flip"),
                 Pt("a", 0, "+1"), Pt("a", 0, "0"), Pt("a", 0, "r-1"), Pt("a", 0, "rnd"),
                 Pt("swap", 0, ""), Pt("swap", 1, ""), Pt("drop", 0, ""), Pt("dup", 0, ""), Pt("label", 0, ""),
                 Pt("lenL", 0, "short"), Pt("lenL", 0, "long"), Pt("lenLR", 0, "short"), Pt("lenLR", 0, "long"), Pt("lenLR", 0, "empty"), Pt("lenR", 0, ""),
                 Pt("lenC", 0, ""), Pt("lenY", 0, ""), Pt("lenZ", 0, ""), Pt("zero", 0, ""), Pt("splice", 0, "ipa"), Pt("splice", 0, "D"),
                 Pt("fake", 0, "zero"), Pt("fake", 1, "zero"), Pt("fake", 0, "other"), Pt("fake", 1, "atz"),
                 \* proofs forged by an adversarial prover for a statement with one false claimed value (see forgeProof in the driver)
                 Pt("forge", 0, "dupy"), Pt("forge", 0, "dupy_first"), Pt("forge", 0, "drop0"), Pt("forge", 0, "droplast"), Pt("forge", 0, "dropz"), Pt("forge", 0, "idlie") >>
Forges == << Pt("forge", 0, "dupy"), Pt("forge", 0, "dupy_first"), Pt("forge", 0, "drop0"), Pt("forge", 0, "droplast"), Pt("forge", 0, "dropz"), Pt("forge", 0, "idlie") >>

Labels == <<"multiproof", "test", "", "vt", "a-longer-protocol-label-0123456789">>
MpShapes ==
  {<<zs, pa, sh, rm>> : zs \in SmallZs, pa \in (IF Quick THEN {"cycle"} ELSE {"one", "cycle"}), sh \in {FALSE}, rm \in {"norm"}}
  \cup {<<zs, "pair", TRUE, "mixed">> : zs \in {z \in SmallZs : Len(z) >= 2}}
  \cup {<<zs, "cycle", FALSE, "mixed2">> : zs \in {z \in SmallZs : Len(z) >= 3}}
  \cup {<<zs, "zeros", FALSE, "norm">> : zs \in { <<3, 77>>, <<10, 10, 200>>, <<3, 77, 9, 200, 3>> }}
  \* many openings: beyond 256 (more openings than domain points), beyond 512 and 1024 (thresholds of batching / buffering code)
  \cup {<<Pattern(n, "spread"), "pair", TRUE, "norm">> : n \in (IF Quick THEN {520} ELSE {257, 520, 1030})}
  \cup {<<zs, pa, sh, "mixed">> : zs \in BigZs, pa \in {"cycle"}, sh \in (IF Quick THEN {TRUE} ELSE BOOLEAN)}
  \* per-index multiplicities at the width of a byte counter: 256 openings (thorough: 255, 257, 512) at ONE index, alone or next to others
  \cup {<<Pattern(n, "same"), "pair", TRUE, "norm">> : n \in (IF Quick THEN {256} ELSE {255, 256, 257, 512})}
  \cup {<<Pattern(259, "same+"), "pair", TRUE, "norm">>}
CpuShapes == {<<Pattern(n, p), "cycle", TRUE, "mixed">> : n \in {k \in {NCpu - 1, NCpu, NCpu + 1, 2 * NCpu + 3} : k >= 1}, p \in {"cycle", "tail"}}
PerturbShapes ==
  {<<zs, "cycle", FALSE, "mixed">> : zs \in (IF Quick THEN { <<255>>, <<0, 255>>, <<5, 200, 5>>, <<0, 1, 254, 255>>, <<200, 200>> } ELSE SmallZs)}
  \cup {<<zs, "pair", TRUE, "mixed2">> : zs \in (IF Quick THEN { <<5, 200, 5, 255, 0, 200, 77>> } ELSE {z \in SmallZs : Len(z) >= 3})}
  \cup {<<Pattern(n, "two"), "cycle", FALSE, "mixed">> : n \in (IF Quick THEN {2 * NCpu + 3} ELSE {NCpu + 1, 2 * NCpu + 3, 100})}
  \* zero-valued openings of non-zero polynomials: alone at their index, sharing it with a non-zero value, sharing it with another zero
  \cup {<<zs, "zeros", FALSE, "norm">> : zs \in { <<3, 77>>, <<10, 10, 200>>, <<3, 77, 9, 200, 3>> }}
  \cup {<<Pattern(n, "same"), "pair", TRUE, "norm">> : n \in (IF Quick THEN {256} ELSE {255, 256, 512})}
  \cup {<<Pattern(259, "same+"), "pair", TRUE, "norm">>}
ManyPerturb == << Pt("y", 0, "+1"), Pt("fake", 0, "other"), Pt("C", 1, "id"), Pt("forge", 0, "dropz"), Pt("forge", 0, "dupy") >>       \* the long shapes get a short list
ArrivalShapes == {<<Pattern(n, p), "cycle", sh, "mixed">> : n \in {NCpu - 1, NCpu + 1, 2 * NCpu + 3}, p \in {"two", "blocks"}, sh \in {FALSE}}
MpSeq == SetToSeq(IF Part = "mp_arrival" THEN ArrivalShapes ELSE IF Part = "mp_cpu" THEN CpuShapes ELSE IF Part = "mp_perturb" THEN PerturbShapes ELSE MpShapes)
MpProgs == [k \in 1 .. Len(MpSeq) |->
              [kind |-> "mp", label |-> Labels[(k % Len(Labels)) + 1], polys |-> PolyTab,
               ops |-> Ops(MpSeq[k][1], PolyAssign(Len(MpSeq[k][1]), MpSeq[k][2]), MpSeq[k][3], MpSeq[k][4]),
               arrival |-> IF Part = "mp_arrival" THEN <<"rev", "rot", "evenodd">>[(k % 3) + 1] ELSE "",
               perturb |-> IF Part # "mp_perturb" THEN <<>>
                           ELSE IF Len(MpSeq[k][1]) >= 200 THEN ManyPerturb
                           ELSE IF Quick THEN [j \in 1 .. 8 |-> AllPerturb[((k * 8 + j + Seed) % Len(AllPerturb)) + 1]] \o Forges
                           ELSE AllPerturb]]

Points == {"mont:1", "mont:2^64-1", "0", "1", "127", "128", "254", "255", "256", "257", "300", "65536", "2^64", "h", "r-2", "r-1", "rnd1", "rnd2", "2^64+5", "2^128+255", "2^192+5", "3*2^192+255", "2^128+2^64+0", "2^250+7"}
PfPerturb == <<"pfL0", "pfL7", "pfR3", "pfa", "pfswap", "pfL0id", "pfLnext">>     \* the correct result with a proof changed in one component
ResultsFor(pt) == IF ~Quick THEN <<"correct", "+1", "-1", "0", "f255", "f0", "rnd">> \o PfPerturb
                  ELSE IF pt \in {"255", "256"} THEN <<"correct", "+1", "-1", "0", "f255", "f0", "rnd">> \o PfPerturb
                  ELSE <<"correct", "+1", "f255", "rnd">>
IpaProgs == {[kind |-> "ipa", label |-> "p", poly |-> pl, point |-> pt, results |-> ResultsFor(pt)] :
               pl \in (IF Quick THEN {PolyTab[1], PolyTab[7]} ELSE {PolyTab[i] : i \in 1 .. Len(PolyTab)} \cup HalfPolys),
               pt \in (IF Part = "ipa_few" THEN {"0", "255", "256", "2^64", "r-1", "rnd1", "mont:5", "2^64+5", "2^128+255", "2^192+5"} ELSE Points)}

ByteCl == {"valid", "short1", "short32", "empty", "trail1", "trail32", "scalar_r", "scalar_r+1", "scalar_r-1", "scalar_max",
           "pt_xplusp", "pt_nonsubgroup", "pt_offcurve", "pt_other", "bitflip", "random",
           \* several invalid point fields at once (must not cancel out in a batched validation)
           "pt_nonsubgroup2", "pt_nonsubgroup4", "pt_nonsubgroupall", "pt_offcurve2", "pt_xplusp2", "pt_nonsub_same2"}
ReaderCl == {"whole", "byte1", "field32", "chunk7", "chunk33", "dataeof", "dataeof32", "dataeof1"}
ReadProgs == {[kind |-> "read", src |-> s, bytes |-> b, reader |-> r, pos |-> p] :
                s \in {"mp", "ipa"}, b \in ByteCl, r \in (IF Quick THEN {"whole", "byte1", "chunk7", "dataeof", "dataeof32"} ELSE ReaderCl),
                p \in (IF Quick THEN {0, 9, 16} ELSE 0 .. 17)}
             \cup {[kind |-> "read", src |-> s, bytes |-> b, reader |-> r, pos |-> 0] :
                     s \in {"mp", "ipa"}, b \in {"valid", "trail1"}, r \in {"err@0", "err@1", "err@31", "err@32", "err@33", "err@543", "err@544", "err@545", "err@575", "err@576", "err@577"}}
(* the final scalar against r limb by limb: all 27 patterns of limbs 2, 1, 0 (minus one / equal / plus one) under an equal top limb *)
ScalarPatProgs == {[kind |-> "read", src |-> s, bytes |-> "scalar_pat", reader |-> "whole", pos |-> p] : s \in {"mp", "ipa"}, p \in 0 .. 26}
WriteProgs == {[kind |-> "write", src |-> s, fault |-> f] : s \in {"mp", "ipa"}, f \in 0 .. 19}

(* structured polynomials (unit vector, zero halves) at a few points: cheap for the reference, they have few non-zero terms *)
IpaHalfProgs == {[kind |-> "ipa", label |-> "p", poly |-> pl, point |-> pt, results |-> <<"correct", "+1">>] :
                   pl \in (IF Quick THEN {PolyTab[5], PolyTab[9], PolyTab[10], PolyTab[11], PolyTab[12]} ELSE {}), pt \in {"3", "255", "256", "rnd1"}}
(* the zero polynomial (identity commitment, all-identity proof, zero final scalar) and a constant: every result class and every proof change *)
IpaZeroProgs == {[kind |-> "ipa", label |-> "p", poly |-> pl, point |-> pt, results |-> <<"correct", "+1", "-1", "rnd">> \o PfPerturb] :
                   pl \in {PolyTab[3], PolyTab[6]}, pt \in (IF Quick THEN {"3", "256"} ELSE {"0", "3", "255", "256", "r-1", "rnd1"})}
(* the IPA programs with small multiproof programs in between (one process, one configuration: whatever the multiproof calls leave behind
   - pooled vectors, caches - must not change an IPA opening, and the reverse) *)
IpaSeq == SetToSeq(IpaProgs \cup IpaHalfProgs \cup IpaZeroProgs)
MixZs == << <<0>>, <<255, 255>>, <<5, 200, 5>>, <<0, 1, 254, 255>>, <<77>>, <<128, 3>> >>
MixMp(k) == [kind |-> "mp", label |-> Labels[(k % Len(Labels)) + 1], polys |-> PolyTab,
             ops |-> Ops(MixZs[(k % Len(MixZs)) + 1], PolyAssign(Len(MixZs[(k % Len(MixZs)) + 1]), "cycle"), FALSE, "mixed"), arrival |-> "", perturb |-> <<>>]
IpaMixed == [k \in 1 .. (Len(IpaSeq) + Len(IpaSeq) \div 3) |-> IF k % 4 = 0 THEN MixMp(k \div 4) ELSE IpaSeq[k - k \div 4]]
Progs == IF Part \in {"mp_honest", "mp_cpu", "mp_perturb", "mp_arrival"} THEN MpProgs
         ELSE IF Part \in {"ipa", "ipa_few"} THEN IpaMixed
         ELSE IF Part = "codec" THEN SetToSeq(ReadProgs \cup ScalarPatProgs \cup WriteProgs)
         ELSE MpProgs \o SetToSeq(IpaProgs) \o SetToSeq(ReadProgs \cup WriteProgs)
VARIABLE done
Init == done = FALSE
Next == ~done /\ done' = ndJsonSerialize(Out, Progs)
=============================================================================
