------------------------------- MODULE Gen_Commit -------------------------------
(* Program generator for C05: digit-class programs for the signed-window recoding (basis position class x window x
   digit class x carry-chain length x rest of the scalar), vector classes and lengths, linearity programs, table rows
   read through the hook, and one CRS derivation check. *)
EXTENDS Integers, Sequences, TLC, Json, IOUtils, FiniteSets, SequencesExt
Tier == IF "VERIF_TIER" \in DOMAIN IOEnv THEN IOEnv.VERIF_TIER ELSE "quick"
Seed == IF "VERIF_SEED" \in DOMAIN IOEnv THEN atoi(IOEnv.VERIF_SEED) ELSE 1
Out  == IOEnv.VERIF_OUT
Blank == [kind |-> "", pos |-> 0, win |-> 0, digit |-> "", chain |-> 0, rest |-> "", vec |-> "", n |-> 0, cnt |-> 0]
Digits == {"0", "1", "half-1", "half", "half+1", "max-1", "max"}
Pos16 == IF Tier = "quick" THEN {0, 4} ELSE 0 .. 4
SeedPos == 6 + ((Seed * 17) % 249)
Pos8  == IF Tier = "quick" THEN {5, 255, SeedPos} ELSE 5 .. 255
Win16 == IF Tier = "quick" THEN {0, 1, 3, 4, 14, 15} ELSE 0 .. 15
Win8  == IF Tier = "quick" THEN {0, 1, 7, 8, 30, 31} ELSE {0, 1, 2, 7, 8, 9, 15, 16, 23, 24, 30, 31}
Chains == {0, 1, 2, 4, 5, 8, 9, 16}        \* 4, 8, 16: all-ones 64-bit limbs (16-bit, 8-bit windows, two limbs) under an incoming carry
DigitCases ==
  {[Blank EXCEPT !.kind = "digit", !.pos = p, !.win = w, !.digit = d, !.chain = c, !.rest = r] : p \in Pos16, w \in Win16, d \in Digits, c \in Chains, r \in {"zero", "rnd"}}
  \cup {[Blank EXCEPT !.kind = "digit", !.pos = p, !.win = w, !.digit = d, !.chain = c, !.rest = r] : p \in Pos8, w \in Win8, d \in Digits, c \in Chains, r \in {"zero", "rnd"}}
VecCases ==
  {[Blank EXCEPT !.kind = "vec", !.vec = v, !.n = n, !.cnt = (IF Tier = "quick" THEN 1 ELSE 6)] :
     v \in {"rnd", "ones", "rminus1", "hot", "first5", "small", "mont", "empty"}, n \in {0, 1, 5, 6, 255, 256}}
LinCases == {[Blank EXCEPT !.kind = "lin", !.n = n, !.cnt = i] : n \in {1, 6, 256}, i \in 1 .. (IF Tier = "quick" THEN 2 ELSE 20)}
(* table rows read through the hook: quick - a few rows; thorough - EVERY row of every 8-bit table (251 points x 32 windows x 128
   entries) and the first 4096 entries of every row of the five 16-bit tables *)
TableCases ==
  {[Blank EXCEPT !.kind = "table", !.pos = p, !.win = w, !.cnt = 0] : p \in (IF Tier = "quick" THEN {5, 255} ELSE 5 .. 255), w \in (IF Tier = "quick" THEN {0, 1, 15, 31} ELSE 0 .. 31)}
  \cup {[Blank EXCEPT !.kind = "table", !.pos = p, !.win = w, !.cnt = (IF Tier = "quick" THEN 300 ELSE 4096)] : p \in (IF Tier = "quick" THEN {0, 4} ELSE 0 .. 4), w \in (IF Tier = "quick" THEN {0, 15} ELSE 0 .. 15)}
ReuseCases == {[Blank EXCEPT !.kind = "reuse", !.n = n, !.cnt = c] : n \in {1, 6, 256}, c \in (IF Tier = "quick" THEN 0 .. 2 ELSE 0 .. 29)}
Cases == DigitCases \cup VecCases \cup LinCases \cup TableCases \cup ReuseCases \cup {[Blank EXCEPT !.kind = "crs"]}
VARIABLE done
Init == done = FALSE
Next == ~done /\ done' = ndJsonSerialize(Out, SetToSeq(Cases))
=============================================================================
