------------------------------ MODULE Gen_Decode ------------------------------
(***************************************************************************)
(* Program generator for untrusted point decoding (C06): every entry point *)
(* x every input class, N seeded members each.  The classes only steer the *)
(* driver; the trace specification classifies every input itself from its  *)
(* bytes and requires every class of ITS classification to be non-empty.   *)
(***************************************************************************)
EXTENDS Integers, Sequences, TLC, Json, IOUtils, FiniteSets, SequencesExt

Tier == IF "VERIF_TIER" \in DOMAIN IOEnv THEN IOEnv.VERIF_TIER ELSE "quick"
Out  == IOEnv.VERIF_OUT
N(big) == IF Tier = "quick" THEN (IF big THEN 60 ELSE 12) ELSE (IF big THEN 15000 ELSE 1000)

Common == {"valid", "xplusp", "nonsubgroup", "offcurve", "random"}
YSide  == {"yhalf", "yhalf64", "yhalf128", "yhalf192", "ytop"}     \* points built from the y side: boundary of the sign choice, limb by limb
Edge   == {"zero", "one", "p-1", "p", "max", "small", "short", "long", "empty", "half", "crossfmt", "double", "xpad"}
UncOnly == {"wrongsign", "yplusp", "yother", "yzero", "yhalf_wrong"}
Cases == {[fn |-> f, cls |-> c, n |-> N(TRUE)] : f \in {"SetBytes", "SetBytesUncompressed", "ReadPoint"}, c \in Common}
         \cup {[fn |-> f, cls |-> c, n |-> N(FALSE)] : f \in {"SetBytes", "SetBytesUncompressed", "ReadPoint"}, c \in Edge}
         \cup {[fn |-> f, cls |-> c, n |-> N(FALSE)] : f \in {"SetBytes", "SetBytesUncompressed", "ReadPoint"}, c \in YSide}
         \cup {[fn |-> "SetBytesUncompressed", cls |-> c, n |-> N(TRUE)] : c \in UncOnly}
         \* complete limb patterns: x around p (81), canonical y around (p-1)/2 (27)
         \cup {[fn |-> f, cls |-> "plimbs", n |-> 81] : f \in {"SetBytes", "SetBytesUncompressed", "ReadPoint"}}
         \cup {[fn |-> f, cls |-> "ypat", n |-> 27] : f \in {"SetBytes", "SetBytesUncompressed", "ReadPoint"}}
         \* y with a chosen 2-power component (one or two bits of the dyadic discrete log set)
         \cup {[fn |-> f, cls |-> "ydyad", n |-> 64] : f \in {"SetBytes", "SetBytesUncompressed", "ReadPoint"}}
         \* pairs: an encoding, then a DIFFERENT encoding whose x has the same limb xor / sum / one limb / limb multiset (canonical digits and stored words)
         \cup {[fn |-> f, cls |-> "relpair", n |-> (IF Tier = "quick" THEN 120 ELSE 4000)] : f \in {"SetBytes", "SetBytesUncompressed", "ReadPoint"}}

VARIABLE done
Init == done = FALSE
Next == ~done /\ done' = ndJsonSerialize(Out, SetToSeq(Cases))
=============================================================================
