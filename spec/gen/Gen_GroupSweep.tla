----------------------------- MODULE Gen_GroupSweep -----------------------------
(***************************************************************************)
(* A fixed sweep next to the random histories of Gen_Group: every          *)
(* distinguished element (G, -G, 2G, identity, SRS[0], -SRS[0]) in every   *)
(* raw representative ((x,y,1), (-x,-y,1), projective, both) goes through  *)
(* every operation once: scalar multiplication by each scalar class of the *)
(* sweep, doubling, negation, addition to itself / to the identity / to    *)
(* its negative, mixed addition, encode-decode, the batch helpers.         *)
(***************************************************************************)
EXTENDS Integers, Sequences, TLC, Json, IOUtils, FiniteSets, SequencesExt
Out  == IOEnv.VERIF_OUT
Tier == IF "VERIF_TIER" \in DOMAIN IOEnv THEN IOEnv.VERIF_TIER ELSE "quick"
Op(o, d, a, b, s, l) == [op |-> o, d |-> d, a |-> a, b |-> b, s |-> s, l |-> l]
Scal == IF Tier = "quick" THEN {"1", "2", "r-1", "2^64", "lam", "rnd1", "2^64+1", "3bits"}
        ELSE {"0", "1", "2", "3", "r-1", "r-2", "h", "2^64", "2^128", "2^252", "2^64-1", "2^63", "2^128-1", "2^192-1", "lam", "lam+1", "lam-1", "-lam", "rnd1", "rnd2", "2^64+1", "2^128+1", "2^192+1", "2^69+2^5", "2^200+2^8", "3bits", "mont:1", "asmont:1"}
ProgFrom(first, s) ==
  << first, Op("id", 2, 0, 0, "", <<>>),
     Op("smul", 3, 1, 0, s, <<>>), Op("double", 4, 1, 0, "", <<>>), Op("neg", 5, 1, 0, "", <<>>),
     Op("add", 4, 1, 1, "", <<>>), Op("add", 4, 1, 2, "", <<>>), Op("add", 4, 2, 1, "", <<>>), Op("add", 4, 1, 5, "", <<>>), Op("sub", 4, 1, 1, "", <<>>),
     Op("addmixed", 4, 3, 1, "", <<>>), Op("encdec", 4, 1, 0, "", <<>>), Op("encdecu", 4, 1, 0, "", <<>>),
     Op("bbytes", 0, 0, 0, "", <<1, 5, 1, 3>>), Op("bmap", 0, 0, 0, "", <<5, 1, 2>>), Op("bunc", 0, 0, 0, "", <<1, 2, 5>>), Op("bnorm", 0, 0, 0, "", <<1, 3, 1>>),
     Op("smul", 1, 1, 0, s, <<>>) >>
Prog(a, rep, s) == ProgFrom(Op("spt", 1, a, 0, rep, <<>>), s)
Progs == {[ops |-> Prog(a, rep, s)] : a \in 0 .. 5, rep \in {"norm", "flip", "proj", "projflip"}, s \in Scal}
         \* elements built from the y side: every single-bit position of the dyadic discrete log of y (decompression takes the root of y^2),
         \* and y at the boundary of the sign choice
         \cup {[ops |-> ProgFrom(Op("ypt", 1, i, 0, "ydyad", <<>>), "2")] : i \in 0 .. (IF Tier = "quick" THEN 31 ELSE 63)}
         \cup {[ops |-> ProgFrom(Op("ypt", 1, i, 0, c, <<>>), "r-1")] : i \in 0 .. 5, c \in {"yhalf", "ypat", "yhalf192"}}
         \* scalar multiplications of ONE element by a scalar and then by a different scalar that a cheap digest of the limbs cannot tell from it
         \* (canonical digits and stored words): whatever is remembered about the first must not answer for the second
         \cup {[ops |-> << Op("spt", 1, a, 0, "proj", <<>>), Op("smul", 3, 1, 0, "relb:" \o ToString(j) \o sfx, <<>>),
                           Op("smul", 4, 1, 0, "relr:" \o ToString(j) \o ":" \o ToString(i) \o sfx, <<>>), Op("smul", 5, 1, 0, "relb:" \o ToString(j) \o sfx, <<>>) >>] :
                 a \in {0, 4}, j \in 0 .. 1, i \in 0 .. 16, sfx \in {"", "m"}}
         \* LARGE batches (a helper that splits long lists among workers / chunks does so beyond any length the histories reach): lengths
         \* around 1024, 2048, 4096 and lengths that 3, 4, 5, 7, 16 workers do not divide; distinct pointers and repeated pointers
         \cup {[ops |-> << Op("id", 1, 0, 0, "", <<>>), Op(o, 0, n, 0, pat, <<>>) >>] :
                 o \in {"Bnorm", "Bbytes", "Bunc", "Bmap"}, pat \in {"distinct", "pairs"},
                 n \in (IF Tier = "quick" THEN {1023, 1027, 2049, 3001} ELSE {1023, 1024, 1025, 1027, 1290, 2047, 2048, 2049, 3001, 4095, 4097, 5003})}
VARIABLE done
Init == done = FALSE
Next == ~done /\ done' = ndJsonSerialize(Out, SetToSeq(Progs))
=============================================================================
