----------------------------- MODULE Gen_Transcript -----------------------------
(***************************************************************************)
(* Program generator for the transcript (C14).  `tlc -simulate`: every     *)
(* behaviour is one operation sequence (new, domain separator, append      *)
(* message / scalar / point, challenge; labels and messages from symbolic  *)
(* classes incl. empty and very long ones) followed by a final challenge.  *)
(* Each program is emitted together with a TWIN: the same sequence with    *)
(* one edit (a label, a message, the protocol label, the order of two      *)
(* neighbours, or no edit at all = determinism).                           *)
(***************************************************************************)
EXTENDS Integers, Sequences, TLC, Json, IOUtils, CSV, FiniteSets, SequencesExt
Out   == IOEnv.VERIF_OUT
Depth == IF "VERIF_DEPTH" \in DOMAIN IOEnv THEN atoi(IOEnv.VERIF_DEPTH) ELSE 12
R(X) == RandomElement(X)
Labels == {"", "a", "ab", "C", "z", "y", "r", "t", "w", "x", "L", "R", "simple_challenge", "multiproof", "ipa", "input point", "long40", "L55", "L56", "L63", "L64", "L65", "L100", "L119", "L128", "L200", "L300"}
\* "mbuf", "sacc", "acc": the driver hands over the SAME slice / scalar variable / element variable each time, changed in place since its last use
Msgs   == {"", "a", "ab", "b32", "b100", "b1000", "b1023", "b1024", "b1025", "b4096", "b5000", "b70000", "mbuf", "mbuf"}
Scalars == {"0", "1", "5", "r-1", "r-2", "2^128", "rnd1", "rnd2", "sacc", "mont:1", "mont:5", "mont:2^64-1", "mont:2^64"}     \* mont:k = the scalar whose stored (Montgomery) words are k
Points  == {"gen", "id", "srs0", "srs255", "gen.z2", "gen.flip", "srs7.zrnd", "2gen.proj", "id.flip", "acc", "acc", "acc"}
Op(o, l, m) == [op |-> o, label |-> l, arg |-> m]
VARIABLES prog
Init == prog = << Op("new", R({"simple_protocol", "multiproof", "test", "", "x", "long40", "L55", "L56", "L63", "L64", "L65", "L100", "L128", "L200"}), "") >>
Next ==
  \/ /\ Len(prog) < Depth /\ prog # <<>>
     /\ \/ prog' = Append(prog, Op("domsep", R(Labels), ""))
        \/ prog' = Append(prog, Op("msg", R(Labels), R(Msgs)))
        \/ prog' = Append(prog, Op("scalar", R(Labels), R(Scalars)))
        \/ prog' = Append(prog, Op("point", R(Labels), R(Points)))
        \/ prog' = Append(prog, Op("challenge", R(Labels), ""))
        \* a message found by search whose next challenge digest lies within 2^240 above ("a") / below ("b") k*r, followed by that challenge
        \/ prog' = Append(prog, Op("hunt", R(Labels), R({"1a", "1b", "2a", "2b", "4b", "8a", "8b"})))
  \/ /\ Len(prog) = Depth
     /\ LET full == Append(prog, Op("challenge", R(Labels), ""))
            pos  == R(1 .. Len(full))
            kind == R({"none", "label", "arg", "swap"})
        IN  CSVWrite("%1$s", <<ToJson([ops |-> full, twin |-> [kind |-> kind, pos |-> pos]])>>, Out)
     /\ prog' = <<>>
=============================================================================
