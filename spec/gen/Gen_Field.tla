------------------------------- MODULE Gen_Field -------------------------------
(***************************************************************************)
(* Program generator for the field family (C15, C16).  The reachable       *)
(* states of this specification ARE the test programs: each successor of   *)
(* the initial state is one case (operation x operand classes), written as *)
(* one JSON line.  Operand classes: per 64-bit limb of the raw (Montgomery)*)
(* word one of {0, 1, 2^63, 2^64-1, q_i-1, q_i, q_i+1} (q_i = limb i of    *)
(* the modulus), named special values around 0, r/2, r, R, R^2, limb       *)
(* boundaries, and seeded random words.                                    *)
(* Tier "quick": second operands range over the diagonal, pivots and       *)
(* specials; tier "thorough": cy = "all" asks the driver for the complete  *)
(* cross product with all 2401 class words.                                *)
(***************************************************************************)
EXTENDS Integers, Sequences, TLC, Json, IOUtils, FiniteSets, SequencesExt

Tier == IF "VERIF_TIER" \in DOMAIN IOEnv THEN IOEnv.VERIF_TIER ELSE "quick"
Out  == IOEnv.VERIF_OUT

Cl  == 0 .. 6
Cl4 == {<<a, b, c, d>> : a \in Cl, b \in Cl, c \in Cl, d \in Cl}
Specials == {"0", "1", "2", "r-1", "r-2", "h-2", "h-1", "h", "h+1", "h+2", "R-2", "R-1", "R", "R+1", "R+2",
             "R2-1", "R2", "R2+1", "2^64-1", "2^64", "2^128-1", "2^128", "2^192-1", "2^192", "2^252", "-R", "-R-1", "-R+1"}
Pivots == {<<0, 0, 0, 0>>, <<3, 3, 3, 3>>, <<4, 5, 5, 5>>, <<6, 5, 5, 5>>, <<3, 3, 3, 0>>, <<2, 2, 2, 2>>, <<1, 0, 0, 1>>, <<5, 6, 3, 4>>}
BinOps == {"add", "sub", "mul", "div", "butterfly", "cmp"}
UnOps  == {"neg", "double", "square", "inverse", "mulby3", "mulby5", "mulby13", "frommont", "tomont", "sqrt", "legendre"}
ExpCl  == {"0", "1", "2", "r-1", "r-2", "r", "2^64", "2^300", "rnd"}
NRnd   == IF Tier = "quick" THEN 40 ELSE 2000

Blank == [op |-> "", cx |-> <<>>, cy |-> <<>>, sx |-> "", sy |-> "", rx |-> 0, ry |-> 0, e |-> "", n |-> 0, zp |-> 0,
          xall |-> FALSE, yall |-> FALSE, diag |-> FALSE, fn |-> "", len |-> 0, val |-> "", band |-> -1, ysub |-> FALSE]
(* thorough tier: the complete cross product of all 7^4 x 7^4 class words is cut into NBands bands of x-words (band b: words
   number b, b + NBands, ..), one band per driver/validation round; VERIF_BAND selects the band to emit (-1: everything else) *)
NBands == 8
Band == IF "VERIF_BAND" \in DOMAIN IOEnv THEN atoi(IOEnv.VERIF_BAND) ELSE -1

(* xall: x ranges over all 7^4 class words (the driver expands the Cartesian product);
   diag: y = x;  yall: y ranges over all class words as well (complete cross product) *)
BinCases ==
  {[Blank EXCEPT !.op = o, !.xall = TRUE, !.diag = TRUE] : o \in BinOps}
  \cup {[Blank EXCEPT !.op = o, !.xall = TRUE, !.cy = y] : o \in BinOps, y \in Pivots}
  \cup (IF Tier = "quick" THEN {}
        \* add / sub: x over all words, y over the 3^4 words with limb classes in {0, 2^64-1, q_i}
        ELSE {[Blank EXCEPT !.op = o, !.xall = TRUE, !.yall = TRUE, !.ysub = TRUE] : o \in {"add", "sub", "div"}})
  \cup {[Blank EXCEPT !.op = o, !.xall = TRUE, !.sy = t] : o \in BinOps, t \in {"0", "1", "r-1", "R", "h"}}
  \cup {[Blank EXCEPT !.op = o, !.sx = s, !.sy = t] : o \in BinOps, s \in Specials, t \in Specials}
  \cup {[Blank EXCEPT !.op = o, !.sx = s, !.cy = y] : o \in BinOps, s \in Specials, y \in Pivots}
  \cup {[Blank EXCEPT !.op = o, !.rx = i, !.ry = i] : o \in BinOps, i \in 1 .. NRnd}
  \cup {[Blank EXCEPT !.op = o, !.rx = i, !.sy = t] : o \in BinOps, i \in 1 .. 5, t \in Specials}
UnCases ==
  {[Blank EXCEPT !.op = o, !.xall = TRUE] : o \in UnOps}
  \cup {[Blank EXCEPT !.op = o, !.sx = s] : o \in UnOps, s \in Specials}
  \cup {[Blank EXCEPT !.op = o, !.rx = i] : o \in UnOps, i \in 1 .. NRnd}
ExpCases ==
  {[Blank EXCEPT !.op = "exp", !.sx = s, !.e = c] : s \in Specials, c \in ExpCl}
  \cup {[Blank EXCEPT !.op = "exp", !.cx = x, !.e = c] : x \in Pivots, c \in ExpCl}
  \cup {[Blank EXCEPT !.op = "exp", !.rx = i, !.e = "rnd"] : i \in 1 .. NRnd}
(* batch inversion: every zero pattern for n <= 5 (bit i of zp = position i is zero), samples beyond *)
BatchCases ==
  {[Blank EXCEPT !.op = "batchinv", !.n = n, !.zp = z, !.rx = 1, !.ry = 2] : n \in 0 .. 5, z \in 0 .. 31}
  \cup {[Blank EXCEPT !.op = "batchinv", !.n = n, !.zp = z, !.sx = s, !.rx = 0, !.ry = 3] :
           n \in {1, 2, 7, 16, 17, 33, 256}, z \in {0, 1, 2, 5, 1023, 1073741823, 715827882}, s \in {"0", "1", "r-1", "R"}}

CodecLens == IF Tier = "quick" THEN {0, 1, 2, 31, 32, 33, 48, 63, 64} ELSE 0 .. 64
RndVals(n) == {"rnd" \o ToString(i) : i \in 1 .. n}
CodecVals == {"0", "1", "255", "256", "r-1", "r", "r+1", "2r", "p-1", "p", "2^256-1", "2^255", "max", "hi", "lo",
              \* multiples of r below 2^256 (r is about 2^252.9), and values that agree with r on its top 192/128/64 bits or differ from it in one 64-bit limb only
              "2^63", "2^64-1", "2^64", "2^127", "2^128-1", "2^191", "2^192-1", "h-1", "h", "h+1", "3r", "4r+1", "5r-1", "8r", "8r-1", "r~64", "r~128", "r~192", "r+2^64", "r-2^64", "r+2^128", "r-2^128", "r+2^192", "r-2^192"} \cup RndVals(IF Tier = "quick" THEN 3 ELSE 150)
(* every pattern of (limb of r) - 1 / equal / + 1 over the four 64-bit limbs: a complete cover of limb-wise comparisons against r *)
LimbPats == {"L:" \o a \o b \o c \o d : a \in {"m", "e", "p"}, b \in {"m", "e", "p"}, c \in {"m", "e", "p"}, d \in {"m", "e", "p"}}
(* stored-word (Montgomery) classes: the 15 patterns of zero / non-zero stored limbs, and named small stored words *)
MontVals == ({"montz:" \o a \o b \o c \o d : a \in {"0", "x"}, b \in {"0", "x"}, c \in {"0", "x"}, d \in {"0", "x"}} \ {"montz:0000"})
            \cup {"mont:1", "mont:5", "mont:255", "mont:2^63", "mont:2^64-1", "mont:2^64", "mont:2^128", "asmont:1", "asmont:2", "asmont:-1", "asmont:R"}
CodecCases ==
  {[Blank EXCEPT !.fn = f, !.len = n, !.val = v] : f \in {"SetBytes", "SetBytesLE"}, n \in CodecLens, v \in CodecVals}
  \cup {[Blank EXCEPT !.fn = f, !.len = n, !.val = v] : f \in {"SetBytesLECanonical"}, n \in CodecLens, v \in CodecVals}
  \cup {[Blank EXCEPT !.fn = "ReadScalar", !.len = n, !.val = v] : n \in {0, 1, 31, 32, 33, 64}, v \in CodecVals}
  \cup {[Blank EXCEPT !.fn = f, !.len = 32, !.val = v] : f \in {"SetBytes", "SetBytesLE", "SetBytesLECanonical", "ReadScalar"}, v \in LimbPats}
  \cup {[Blank EXCEPT !.fn = f, !.len = n, !.val = v] : f \in {"SetBytes", "SetBytesLE", "SetBytesLECanonical"}, n \in {33, 40, 63, 64}, v \in {"hi_r", "hi_3r", "hi_8r"}}
  \cup {[Blank EXCEPT !.fn = f, !.len = 32, !.val = v] : f \in {"Bytes", "BytesLE", "fpBytes", "fpBytesLE"}, v \in CodecVals \cup MontVals}
  \cup {[Blank EXCEPT !.fn = f, !.len = n, !.val = v] : f \in {"SetBytes", "SetBytesLE", "SetBytesLECanonical", "ReadScalar"}, n \in {32, 64}, v \in MontVals}

Which == IF "VERIF_PART" \in DOMAIN IOEnv THEN IOEnv.VERIF_PART ELSE "all"
BandCases == {[Blank EXCEPT !.op = "mul", !.xall = TRUE, !.yall = TRUE, !.band = Band]}
Cases == IF Band >= 0 THEN BandCases
         ELSE IF Which = "codec" THEN CodecCases
         ELSE IF Which = "field" THEN BinCases \cup UnCases \cup ExpCases \cup BatchCases
         ELSE BinCases \cup UnCases \cup ExpCases \cup BatchCases \cup CodecCases

(* all cases are written in one go (one JSON object per line); the single behaviour of this
   specification has one step, which performs the write *)
VARIABLE done
Init == done = FALSE
Next == ~done /\ done' = ndJsonSerialize(Out, SetToSeq(Cases))
=============================================================================
