-------------------------------- MODULE Gen_Conc --------------------------------
(* Program generator for C12: numbers of goroutines x GOMAXPROCS x call mixes (each goroutine runs the mix rotated by its index). *)
EXTENDS Integers, Sequences, TLC, Json, IOUtils, FiniteSets, SequencesExt
Tier == IF "VERIF_TIER" \in DOMAIN IOEnv THEN IOEnv.VERIF_TIER ELSE "quick"
Out  == IOEnv.VERIF_OUT
Mixes == { <<"prove", "commit", "msm", "codec", "batch", "transcript", "poly", "ipa">>,
           <<"prove", "prove", "prove">>, <<"msm", "commit", "msm", "commit">>, <<"codec", "batch", "transcript", "codec">>, <<"ipa", "prove", "poly">> }
Ks   == IF Tier = "quick" THEN {2, 8} ELSE {2, 4, 8, 32}
GMPs == IF Tier = "quick" THEN {1, 4, 16} ELSE {1, 2, 4, 16}
Cases == {[k |-> k, gomaxprocs |-> g, calls |-> m] : k \in Ks, g \in GMPs, m \in (IF Tier = "quick" THEN {<<"prove", "commit", "msm", "codec", "batch", "transcript", "poly", "ipa">>, <<"prove", "prove", "prove">>} ELSE Mixes)}
VARIABLE done
Init == done = FALSE
Next == ~done /\ done' = ndJsonSerialize(Out, SetToSeq(Cases))
=============================================================================
