-------------------------------- MODULE Gen_Conc --------------------------------
(* Program generator for C12: numbers of goroutines x GOMAXPROCS x call mixes (each goroutine runs the mix rotated by its index). *)
EXTENDS Integers, Sequences, TLC, Json, IOUtils, FiniteSets, SequencesExt
Tier == IF "VERIF_TIER" \in DOMAIN IOEnv THEN IOEnv.VERIF_TIER ELSE "quick"
Out  == IOEnv.VERIF_OUT
Mixes == { <<"prove", "commit", "msm", "codec", "batch", "transcript", "poly", "ipa">>,
           <<"prove", "prove", "prove">>, <<"msm", "commit", "msm", "commit">>, <<"codec", "batch", "transcript", "codec">>, <<"ipa", "prove", "poly">> }
Ks   == IF Tier = "quick" THEN {2, 8} ELSE {2, 4, 8, 32}
GMPs == IF Tier = "quick" THEN {1, 4, 16} ELSE {1, 2, 4, 16}
Full == <<"prove", "commit", "msm", "codec", "batch", "transcript", "poly", "ipa", "serde", "dupbatch">>
Base == {[k |-> k, gomaxprocs |-> g, envgmp |-> 0, reps |-> 1, fresh |-> FALSE, calls |-> m] : k \in Ks, g \in GMPs,
           m \in (IF Tier = "quick" THEN {Full, <<"prove", "prove", "prove">>, <<"bigprove", "ipa", "bigprove">>} ELSE Mixes \cup {<<"bigprove", "ipa", "bigprove">>, <<"bigprove", "transcript", "codec">>})}
(* "any number of goroutines": many more callers than processors (4x and 8x NumCPU), on MSM-bound mixes whose calls fan out into worker goroutines themselves *)
Many == {[k |-> k, gomaxprocs |-> 0, envgmp |-> 0, reps |-> 1, fresh |-> FALSE, calls |-> m] : k \in (IF Tier = "quick" THEN {64} ELSE {64, 128}),
                                                                  m \in (IF Tier = "quick" THEN {<<"msm", "commit", "msm", "prove">>} ELSE {<<"msm", "commit", "msm", "prove">>, Full, <<"ipa", "batch", "msm">>})}
(* processes STARTED with GOMAXPROCS=1 / 2 (package initialisers see that value; runtime.GOMAXPROCS(n) later cannot reproduce it) *)
EnvCases == {[k |-> k, gomaxprocs |-> 0, envgmp |-> g, reps |-> 1, fresh |-> FALSE, calls |-> m] : k \in (IF Tier = "quick" THEN {8} ELSE {2, 8, 32}), g \in (IF Tier = "quick" THEN {1} ELSE {1, 2, 4}),
                                                                       m \in (IF Tier = "quick" THEN {Full} ELSE {Full, <<"msm", "commit", "msm", "prove">>})}
(* sustained overlap: every goroutine repeats a short list of calls of ONE kind many times, so that two calls of the same kind are inside
   their loops at the same time again and again (pooled or package-level scratch space shows only then) *)
Kinds == {<<"dupbatch">>, <<"serde">>, <<"serde", "transcript", "codec">>, <<"bigbatch">>, <<"msm", "commit">>, <<"codec", "batch">>, <<"transcript", "poly">>, <<"prove">>, <<"ipa">>, <<"bigprove">>}
Stress == {[k |-> 16, gomaxprocs |-> g, envgmp |-> 0, reps |-> (IF m \in {<<"prove">>, <<"ipa">>, <<"bigprove">>} THEN (IF Tier = "quick" THEN 6 ELSE 40) ELSE IF Tier = "quick" THEN 200 ELSE 1500), fresh |-> FALSE, calls |-> m] :
             g \in (IF Tier = "quick" THEN {4} ELSE {1, 2, 4, 16}), m \in Kinds}
(* (dividez is cheap: 120 first-use positions per program make the detection of a first-use race robust on a loaded machine) *)
(* first uses: a configuration created for the program, the concurrent pass FIRST, every goroutine starting each position at the same moment on an
   index / point that no earlier position used (lazily built state is built under contention) *)
Z20(op) == [i \in 1 .. 20 |-> op]
FreshCases == {[k |-> k, gomaxprocs |-> g, envgmp |-> 0, reps |-> 1, fresh |-> TRUE, calls |-> m] :
                 k \in (IF Tier = "quick" THEN {3, 12} ELSE {3, 4, 8, 12, 32}), g \in (IF Tier = "quick" THEN {4, 16} ELSE {2, 4, 16}),
                 m \in {[i \in 1 .. 120 |-> "dividez"], Z20("provez"), <<"ipaz", "commit", "msm", "provez", "dividez", "ipaz", "batch", "codec", "provez", "dividez">>}}
Cases == Base \cup Many \cup EnvCases \cup Stress \cup FreshCases
VARIABLE done
Init == done = FALSE
Next == ~done /\ done' = ndJsonSerialize(Out, SetToSeq(Cases))
=============================================================================
