-------------------------------- MODULE Gen_Sqrt --------------------------------
(* Program generator for C17: for each of the four 8-bit blocks of the 32-bit dyadic discrete log, a sweep over all
   256 block values (other blocks zero or random, odd-order factor trivial or random); special values; seeded random
   elements, squares, x-coordinates; and one dump of the precomputed tables. *)
EXTENDS Integers, Sequences, TLC, Json, IOUtils, FiniteSets, SequencesExt
Tier == IF "VERIF_TIER" \in DOMAIN IOEnv THEN IOEnv.VERIF_TIER ELSE "quick"
Out  == IOEnv.VERIF_OUT
Reps == IF Tier = "quick" THEN 1 ELSE 60
Blank == [kind |-> "", blk |-> 0, others |-> "", odd |-> "", n |-> 0, val |-> "", rep |-> 0]
Cases == {[Blank EXCEPT !.kind = "dlog", !.blk = b, !.others = o, !.odd = d, !.rep = r] : b \in 0 .. 3, o \in {"zero", "rnd"}, d \in {"one", "rnd"}, r \in 1 .. Reps}
         \cup {[Blank EXCEPT !.kind = "special", !.val = s] : s \in {"0", "1", "2", "4", "p-1", "p-2", "5", "h", "g", "g2"}}
         \cup {[Blank EXCEPT !.kind = k, !.n = (IF Tier = "quick" THEN 150 ELSE 10000), !.rep = r] : k \in {"random", "square", "point"}, r \in 1 .. Reps}
         \cup {[Blank EXCEPT !.kind = "yside", !.n = (IF Tier = "quick" THEN 40 ELSE 2000), !.rep = r] : r \in 1 .. Reps}
         \* histories: a value, then a different value with the same limb xor / sum / one limb / limb multiset (canonical and stored words)
         \cup {[Blank EXCEPT !.kind = "relatives", !.n = (IF Tier = "quick" THEN 6 ELSE 120), !.rep = r] : r \in 1 .. Reps}
         \* values chosen by their stored (Montgomery) words: all 81 limb patterns over {0, 1, random}, as root inputs, squared, and as the ratio behind an x-coordinate
         \cup {[Blank EXCEPT !.kind = "stored", !.rep = r] : r \in 1 .. Reps}
         \cup {[Blank EXCEPT !.kind = "tables"]}
VARIABLE done
Init == done = FALSE
Next == ~done /\ done' = ndJsonSerialize(Out, SetToSeq(Cases))
=============================================================================
