--------------------------------- MODULE Poly ---------------------------------
(***************************************************************************)
(* Polynomials of degree < WDom over F_WR in evaluation form on the domain *)
(* {0, .., WDom-1}: f[i+1] is the value at i  (C18, C04).                  *)
(* (ELet = eager let, see module Num: same meaning as LET, evaluated once) *)
(***************************************************************************)
EXTENDS Transcript

PIdx == [i \in 1 .. WDom |-> i]
PFr(i) == FOfInt(WR, i)                          \* domain element as scalar
PZeroVec == [i \in 1 .. WDom |-> N0]
PUnit(i, v) == [j \in 1 .. WDom |-> IF j = i + 1 THEN v ELSE N0]

(* A'(i) = prod_{j # i} (i - j), by its defining product *)
PAprime(i) == FoldLeft(LAMBDA acc, j : IF j - 1 = i THEN acc ELSE FMul(WR, acc, FSub(WR, PFr(i), PFr(j - 1))), NMod(N1, WR), PIdx)
PAprimeVec == [i \in 1 .. WDom |-> PAprime(i - 1)]
(* A(t) = prod_j (t - j) *)
PA(t) == FoldLeft(LAMBDA acc, j : FMul(WR, acc, FSub(WR, t, PFr(j - 1))), NMod(N1, WR), PIdx)

(* quotient (f(X) - f(z)) / (X - z) for a domain index z, in evaluation form:
     q_j = (f_j - f_z)/(j - z) for j # z,   q_z = - sum_{j # z} (A'(z)/A'(j)) q_j
   ap = PAprimeVec is passed in so that callers compute it once. *)
PQuotient(ap, f, z) ==
  LET st == FoldLeft(LAMBDA S, j :
                       IF j - 1 = z THEN <<Append(S[1], N0), S[2]>>
                       ELSE LET qj == FDiv(WR, FSub(WR, f[j], f[z + 1]), FSub(WR, PFr(j - 1), PFr(z)))
                            IN  <<Append(S[1], qj), FAdd(WR, S[2], FMul(WR, FDiv(WR, ap[z + 1], ap[j]), qj))>>,
                     <<<<>>, N0>>, PIdx)
  IN  ELet(st, LAMBDA r : ReplaceAt(r[1], z + 1, FNeg(WR, r[2])))

(* characterisation of the quotient that uses no division table (C18 oracle):
   for all i # k: q_i (i - k) = f_i - f_k, and the coefficient of X^(WDom-1) of q,
   which is sum_i q_i / A'(i), vanishes *)
PIsQuotient(ap, f, k, q) ==
  /\ \A j \in 1 .. WDom : j - 1 # k => FMul(WR, q[j], FSub(WR, PFr(j - 1), PFr(k))) = FSub(WR, f[j], f[k + 1])
  /\ FoldLeft(LAMBDA acc, j : FAdd(WR, acc, FDiv(WR, q[j], ap[j])), N0, PIdx) = N0

(* Lagrange coefficients L_j(t) = A(t) / (A'(j) (t - j)) for t outside the domain *)
PLagrange(ap, t) ==
  ELet(PA(t), LAMBDA at : [j \in 1 .. WDom |-> FDiv(WR, at, FMul(WR, ap[j], FSub(WR, t, PFr(j - 1))))])
(* characterisation without tables: sum_i i^j b_i = t^j for all j < WDom (Vandermonde) *)
PIsLagrange(b, t) ==
  FoldLeft(LAMBDA S, j :
             \* S = <<ok, powers i^j for each i, t^j>>
             << S[1] /\ FoldLeft(LAMBDA acc, i : FAdd(WR, acc, FMul(WR, S[2][i], b[i])), N0, PIdx) = S[3],
                [i \in 1 .. WDom |-> FMul(WR, S[2][i], PFr(i - 1))],
                FMul(WR, S[3], t) >>,
           <<TRUE, [i \in 1 .. WDom |-> NMod(N1, WR)], NMod(N1, WR)>>, PIdx)[1]

(* coefficient form by Newton interpolation on 0, 1, 2, ..; independent of every table *)
PNewtonCoeffs(f) ==
  \* divided differences: c_k = f[0..k];  column update  d_i <- (d_i - d_{i-1}) / k
  FoldLeft(LAMBDA S, k :
             \* S = <<current column d (values for i >= k-1 meaningful), coefficients so far>>
             ELet(FInv(WR, PFr(k)), LAMBDA ik :
               ELet([i \in 1 .. WDom |-> IF i <= k THEN S[1][i] ELSE FMul(WR, FSub(WR, S[1][i], S[1][i - 1]), ik)],
                    LAMBDA d2 : <<d2, Append(S[2], d2[k + 1])>>)),
           <<f, <<f[1]>>>>, [k \in 1 .. (WDom - 1) |-> k])[2]
(* evaluate the Newton form  sum_k c_k prod_{j<k} (t - j)  (Horner) *)
PEvalNewton(c, t) ==
  FoldLeft(LAMBDA acc, kk : LET k == WDom - kk IN FAdd(WR, c[k + 1], FMul(WR, acc, FSub(WR, t, PFr(k)))),
           N0, PIdx)
(* value of the interpolating polynomial of f at ANY field point t *)
PEval(f, t) == ELet(PNewtonCoeffs(f), LAMBDA c : PEvalNewton(c, t))
=============================================================================
