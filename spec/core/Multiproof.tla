------------------------------ MODULE Multiproof ------------------------------
(***************************************************************************)
(* The Verkle multiproof (C01 C02 C03), TEXTBOOK form: one quotient per    *)
(* opening, no grouping.                                                   *)
(*   g = sum_i rho^i (f_i - y_i)/(X - z_i)     D = Commit(g)               *)
(*   h = sum_i rho^i f_i/(t - z_i)             E = Commit(h)               *)
(*   IPA proof for (E - D, h - g) at t.                                    *)
(* An opening is [C |-> point, f |-> evaluation vector, z |-> index].      *)
(* A statement for the verifier is [C, z, y].                              *)
(***************************************************************************)
EXTENDS IPA

LblMultiproof == <<109, 117, 108, 116, 105, 112, 114, 111, 111, 102>>     \* "multiproof"
LblZ  == <<122>>    \* "z"
LblY  == <<121>>    \* "y"
LblD  == <<68>>     \* "D"
LblE  == <<69>>     \* "E"
LblT  == <<116>>    \* "t"
LblRr == <<114>>    \* "r"

MPAbsorb(tr0, Cs, zs, ys) ==
  FoldLeft(LAMBDA t, i : TAppendScalar(TAppendScalar(TAppendPoint(t, LblC, Cs[i]), LblZ, PFr(zs[i])), LblY, ys[i]),
           TDomainSep(tr0, LblMultiproof), [i \in 1 .. Len(Cs) |-> i])

(* Prover.  ops: sequence of openings (non-empty).  Returns [D, ipa, tr, ...].  (ELet: eager let, module Num.) *)
MPProve(tr0, cfg, ap, ops) ==
  LET n   == Len(ops)
      idx == [i \in 1 .. n |-> i]
  IN
  ELet(MPAbsorb(tr0, [i \in 1 .. n |-> ops[i].C], [i \in 1 .. n |-> ops[i].z], [i \in 1 .. n |-> ops[i].f[ops[i].z + 1]]), LAMBDA t1 :
  ELet(TChallengeValue(t1, LblRr), LAMBDA rho :
  ELet(FPowers(WR, rho, n), LAMBDA pw :
  ELet(FoldLeft(LAMBDA acc, i : FVecAdd(WR, acc, FVecScale(WR, pw[i], PQuotient(ap, ops[i].f, ops[i].z))), PZeroVec, idx), LAMBDA g :
  ELet(PCommit(cfg.G, g), LAMBDA D :
  ELet(TAppendPoint(TAfterChallenge(t1, LblRr), LblD, D), LAMBDA t3 :
  ELet(TChallengeValue(t3, LblT), LAMBDA t :
  ELet(FoldLeft(LAMBDA acc, i : FVecAdd(WR, acc, FVecScale(WR, FDiv(WR, pw[i], FSub(WR, t, PFr(ops[i].z))), ops[i].f)), PZeroVec, idx), LAMBDA h :
  ELet(PCommit(cfg.G, h), LAMBDA E :
  ELet(IPAProve(TAppendPoint(TAfterChallenge(t3, LblT), LblE, E), cfg, ap, ESub(E, D), FVecSub(WR, h, g), t), LAMBDA ip :
    [D |-> D, ipa |-> ip.proof, tr |-> ip.tr, rho |-> rho, t |-> t, E |-> E, g |-> g, h |-> h, w |-> ip.w, xs |-> ip.xs]))))))))))

(* Verifier.  Cs, zs, ys: sequences; proof = [D, ipa].  Returns [ok, err, tr]. *)
MPVerify(tr0, cfg, ap, proof, Cs, zs, ys) ==
  IF Len(Cs) # Len(ys) \/ Len(Cs) # Len(zs) \/ Len(Cs) = 0
  THEN [ok |-> FALSE, err |-> TRUE, tr |-> TDomainSep(tr0, LblMultiproof)]
  ELSE
  LET n   == Len(Cs)
      idx == [i \in 1 .. n |-> i]
  IN
  ELet(MPAbsorb(tr0, Cs, zs, ys), LAMBDA t1 :
  ELet(FPowers(WR, TChallengeValue(t1, LblRr), n), LAMBDA pw :
  ELet(TAppendPoint(TAfterChallenge(t1, LblRr), LblD, proof.D), LAMBDA t3 :
  ELet(TChallengeValue(t3, LblT), LAMBDA t :
  ELet([i \in 1 .. n |-> FDiv(WR, pw[i], FSub(WR, t, PFr(zs[i])))], LAMBDA ks :
  ELet(EMsm(ks, Cs), LAMBDA E :
    IPAVerify(TAppendPoint(TAfterChallenge(t3, LblT), LblE, E), cfg, ap, ESub(E, proof.D), proof.ipa, t,
              FoldLeft(LAMBDA acc, i : FAdd(WR, acc, FMul(WR, ks[i], ys[i])), N0, idx))))))))
=============================================================================
