------------------------------- MODULE PolyImpl -------------------------------
(***************************************************************************)
(* Implementation-shaped part of ipa/barycentric.go (C18): the precomputed *)
(* tables (A'(x_i) | 1/A'(x_i) concatenated; 1/k | -1/k concatenated, k =  *)
(* 1..D-1) and the routines that index into them.                          *)
(***************************************************************************)
EXTENDS Poly

(* barycentricWeights[i] = A'(i), [D + i] = 1/A'(i)   (0-based i; sequences are 1-based) *)
PIWeights == [k \in 1 .. 2 * WDom |-> IF k <= WDom THEN PAprime(k - 1) ELSE FInv(WR, PAprime(k - 1 - WDom))]
(* invertedDomain[k-1] = 1/k, [D-1 + k-1] = -1/k  for k = 1..D-1 *)
PIInverted == [k \in 1 .. 2 * (WDom - 1) |-> IF k <= WDom - 1 THEN FInv(WR, PFr(k)) ELSE FNeg(WR, FInv(WR, PFr(k - (WDom - 1))))]

PIGetInverted(inv, element, isNeg) == inv[(element - 1) + (IF isNeg THEN Len(inv) \div 2 ELSE 0) + 1]
PIRatio(bw, num, den) == FMul(WR, bw[num + 1], bw[den + (Len(bw) \div 2) + 1])

(* DivideOnDomain(index, f) as written: one pass, q[index] accumulated on the way *)
PIDivideOnDomain(bw, inv, index, f) ==
  FoldLeft(LAMBDA q, ii :
             LET i == ii - 1 IN
             IF i = index THEN q
             ELSE LET den  == i - index
                      dinv == PIGetInverted(inv, IF den < 0 THEN 0 - den ELSE den, den < 0)
                      qi   == FMul(WR, FSub(WR, f[i + 1], f[index + 1]), dinv)
                      tmp  == FMul(WR, PIRatio(bw, index, i), qi)
                  IN  [q EXCEPT ![i + 1] = qi, ![index + 1] = FSub(WR, q[index + 1], tmp)],
           PZeroVec, PIdx)

(* ComputeBarycentricCoefficients(point) as written *)
PIBarycentric(bw, point) ==
  ELet(FoldLeft(LAMBDA acc, i : FMul(WR, acc, FSub(WR, point, PFr(i - 1))), NMod(N1, WR), PIdx), LAMBDA tp :
  ELet(FBatchInv(WR, [i \in 1 .. WDom |-> FMul(WR, FSub(WR, point, PFr(i - 1)), bw[i])]), LAMBDA li :
    [i \in 1 .. WDom |-> FMul(WR, li[i], tp)]))
=============================================================================
