--------------------------------- MODULE IPA ---------------------------------
(***************************************************************************)
(* The inner-product argument of the Verkle cryptography specification     *)
(* (C04, and the core of C01-C03), written as the TEXTBOOK protocol: the   *)
(* vectors a, b and the basis G are halved explicitly in every round, by   *)
(* prover and verifier alike.  The optimised verifier of the code (one MSM *)
(* with challenge products) is a separate, implementation-shaped module    *)
(* that is checked to agree with this one.                                 *)
(*                                                                         *)
(* cfg = [G |-> basis (WDom points), Q |-> point]                          *)
(* proof = [L |-> seq of points, R |-> seq of points, a |-> scalar]        *)
(***************************************************************************)
EXTENDS Pedersen

LblIpa    == <<105, 112, 97>>                                             \* "ipa"
LblC      == <<67>>                                                       \* "C"
LblInput  == <<105, 110, 112, 117, 116, 32, 112, 111, 105, 110, 116>>     \* "input point"
LblOutput == <<111, 117, 116, 112, 117, 116, 32, 112, 111, 105, 110, 116>>\* "output point"
LblW      == <<119>>                                                      \* "w"
LblL      == <<76>>                                                       \* "L"
LblR      == <<82>>                                                       \* "R"
LblX      == <<120>>                                                      \* "x"

(* b-vector: unit vector for a point of the domain, Lagrange coefficients otherwise.
   The boundary is exactly WDom-1 | WDom. *)
IPAInDomain(z) == NLt(z, NOfInt(WDom))
IPABVector(ap, z) == IF IPAInDomain(z) THEN PUnit(NToInt(z), NMod(N1, WR)) ELSE PLagrange(ap, z)

IPALo(s) == SubSeq(s, 1, Len(s) \div 2)
IPAHi(s) == SubSeq(s, Len(s) \div 2 + 1, Len(s))
IPAFoldScalars(lo, hi, x) == [i \in 1 .. Len(lo) |-> FAdd(WR, lo[i], FMul(WR, x, hi[i]))]
IPAFoldPoints(lo, hi, x)  == [i \in 1 .. Len(lo) |-> EAdd(lo[i], EMul(x, hi[i]))]

(* Prover.  Returns [proof, tr (transcript afterwards), y (claimed value <a,b>), w, xs (the challenges)].
   ELet is the eager let of module Num: ELet(v, LAMBDA x : body) means LET x == v IN body, v evaluated once. *)
IPARound(S, q) ==
  ELet(<<IPALo(S.a), IPAHi(S.a), IPALo(S.b), IPAHi(S.b), IPALo(S.G), IPAHi(S.G)>>, LAMBDA h :      \* aL aR bL bR GL GR
  ELet(<<EAdd(EMsm(h[2], h[5]), EMul(FInner(WR, h[2], h[3]), q)),                                  \* C_L = <a_R, G_L> + <a_R, b_L> q
         EAdd(EMsm(h[1], h[6]), EMul(FInner(WR, h[1], h[4]), q))>>, LAMBDA LR :                     \* C_R = <a_L, G_R> + <a_L, b_R> q
  ELet(TAppendPoint(TAppendPoint(S.tr, LblL, LR[1]), LblR, LR[2]), LAMBDA t3 :
  ELet(TChallengeValue(t3, LblX), LAMBDA x :
  ELet(FInv(WR, x), LAMBDA xi :
    [tr |-> TAfterChallenge(t3, LblX),
     a  |-> IPAFoldScalars(h[1], h[2], x),
     b  |-> IPAFoldScalars(h[3], h[4], xi),
     G  |-> IPAFoldPoints(h[5], h[6], xi),
     L  |-> Append(S.L, LR[1]), R |-> Append(S.R, LR[2]), xs |-> Append(S.xs, x)])))))
IPAProve(tr0, cfg, ap, C, a0, z) ==
  ELet(IPABVector(ap, z), LAMBDA b0 :
  ELet(FInner(WR, a0, b0), LAMBDA y :
  ELet(TAppendScalar(TAppendScalar(TAppendPoint(TDomainSep(tr0, LblIpa), LblC, C), LblInput, z), LblOutput, y), LAMBDA t1 :
  ELet(TChallengeValue(t1, LblW), LAMBDA w :
  ELet(EMul(w, cfg.Q), LAMBDA q :
  ELet(FoldLeft(LAMBDA S, round : IPARound(S, q),
                [tr |-> TAfterChallenge(t1, LblW), a |-> a0, b |-> b0, G |-> cfg.G, L |-> <<>>, R |-> <<>>, xs |-> <<>>],
                [i \in 1 .. WRounds |-> i]), LAMBDA st :
    [proof |-> [L |-> st.L, R |-> st.R, a |-> st.a[1]], tr |-> st.tr, y |-> y, w |-> w, xs |-> st.xs]))))))

(* Verifier (textbook).  Returns [ok, err, tr]. *)
IPAVerifyRound(S, proof, k) ==
  ELet(TAppendPoint(TAppendPoint(S.tr, LblL, proof.L[k]), LblR, proof.R[k]), LAMBDA t3 :
  ELet(TChallengeValue(t3, LblX), LAMBDA x :
  ELet(FInv(WR, x), LAMBDA xi :
    [tr |-> TAfterChallenge(t3, LblX),
     C  |-> EAdd(S.C, EAdd(EMul(x, proof.L[k]), EMul(xi, proof.R[k]))),
     b  |-> IPAFoldScalars(IPALo(S.b), IPAHi(S.b), xi),
     G  |-> IPAFoldPoints(IPALo(S.G), IPAHi(S.G), xi)])))
IPAVerify(tr0, cfg, ap, C, proof, z, y) ==
  IF Len(proof.L) # Len(proof.R) \/ Len(proof.L) # WRounds
  THEN [ok |-> FALSE, err |-> TRUE, tr |-> TDomainSep(tr0, LblIpa)]
  ELSE
  ELet(TAppendScalar(TAppendScalar(TAppendPoint(TDomainSep(tr0, LblIpa), LblC, C), LblInput, z), LblOutput, y), LAMBDA t1 :
  ELet(EMul(TChallengeValue(t1, LblW), cfg.Q), LAMBDA q :
  ELet(FoldLeft(LAMBDA S, k : IPAVerifyRound(S, proof, k),
                [tr |-> TAfterChallenge(t1, LblW), C |-> EAdd(C, EMul(y, q)), b |-> IPABVector(ap, z), G |-> cfg.G],
                [i \in 1 .. WRounds |-> i]), LAMBDA st :
    [ok |-> EEq(st.C, EAdd(EMul(proof.a, st.G[1]), EMul(FMul(WR, proof.a, st.b[1]), q))), err |-> FALSE, tr |-> st.tr])))
=============================================================================
