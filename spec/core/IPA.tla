--------------------------------- MODULE IPA ---------------------------------
(***************************************************************************)
(* The inner-product argument of the Verkle cryptography specification     *)
(* (C04, and the core of C01-C03), written as the TEXTBOOK protocol: the   *)
(* vectors a, b and the basis G are halved explicitly in every round, by   *)
(* prover and verifier alike.  The optimised verifier of the code (one MSM *)
(* with challenge products) is a separate, implementation-shaped module    *)
(* that is checked to agree with this one.                                 *)
(*                                                                         *)
(* cfg = [G |-> basis (WDom points), Q |-> point]                          *)
(* proof = [L |-> seq of points, R |-> seq of points, a |-> scalar]        *)
(***************************************************************************)
EXTENDS Pedersen

LblIpa    == <<105, 112, 97>>                                             \* "ipa"
LblC      == <<67>>                                                       \* "C"
LblInput  == <<105, 110, 112, 117, 116, 32, 112, 111, 105, 110, 116>>     \* "input point"
LblOutput == <<111, 117, 116, 112, 117, 116, 32, 112, 111, 105, 110, 116>>\* "output point"
LblW      == <<119>>                                                      \* "w"
LblL      == <<76>>                                                       \* "L"
LblR      == <<82>>                                                       \* "R"
LblX      == <<120>>                                                      \* "x"

(* b-vector: unit vector for a point of the domain, Lagrange coefficients otherwise.
   The boundary is exactly WDom-1 | WDom. *)
IPAInDomain(z) == NLt(z, NOfInt(WDom))
IPABVector(ap, z) == IF IPAInDomain(z) THEN PUnit(NToInt(z), NMod(N1, WR)) ELSE PLagrange(ap, z)

IPALo(s) == SubSeq(s, 1, Len(s) \div 2)
IPAHi(s) == SubSeq(s, Len(s) \div 2 + 1, Len(s))
IPAFoldScalars(lo, hi, x) == [i \in 1 .. Len(lo) |-> FAdd(WR, lo[i], FMul(WR, x, hi[i]))]
IPAFoldPoints(lo, hi, x)  == [i \in 1 .. Len(lo) |-> EAdd(lo[i], EMul(x, hi[i]))]

(* Prover.  Returns [proof, tr (transcript afterwards), y (claimed value <a,b>)] *)
IPAProve(tr0, cfg, ap, C, a0, z) ==
  LET b0  == IPABVector(ap, z)
      y   == FInner(WR, a0, b0)
      t1  == TAppendScalar(TAppendScalar(TAppendPoint(TDomainSep(tr0, LblIpa), LblC, C), LblInput, z), LblOutput, y)
      w   == TChallengeValue(t1, LblW)
      t2  == TAfterChallenge(t1, LblW)
      q   == EMul(w, cfg.Q)
      st  == FoldLeft(LAMBDA S, round :
                        LET aL == IPALo(S.a)  aR == IPAHi(S.a)
                            bL == IPALo(S.b)  bR == IPAHi(S.b)
                            GL == IPALo(S.G)  GR == IPAHi(S.G)
                            zL == FInner(WR, aR, bL)
                            zR == FInner(WR, aL, bR)
                            CL == EAdd(EMsm(aR, GL), EMul(zL, q))
                            CR == EAdd(EMsm(aL, GR), EMul(zR, q))
                            t3 == TAppendPoint(TAppendPoint(S.tr, LblL, CL), LblR, CR)
                            x  == TChallengeValue(t3, LblX)
                            xi == FInv(WR, x)
                        IN  [tr |-> TAfterChallenge(t3, LblX),
                             a  |-> IPAFoldScalars(aL, aR, x),
                             b  |-> IPAFoldScalars(bL, bR, xi),
                             G  |-> IPAFoldPoints(GL, GR, xi),
                             L  |-> Append(S.L, CL), R |-> Append(S.R, CR)],
                      [tr |-> t2, a |-> a0, b |-> b0, G |-> cfg.G, L |-> <<>>, R |-> <<>>],
                      [i \in 1 .. WRounds |-> i])
  IN  [proof |-> [L |-> st.L, R |-> st.R, a |-> st.a[1]], tr |-> st.tr, y |-> y]

(* Verifier (textbook).  Returns [ok, shapeErr, tr]. *)
IPAVerify(tr0, cfg, ap, C, proof, z, y) ==
  IF Len(proof.L) # Len(proof.R) \/ Len(proof.L) # WRounds
  THEN [ok |-> FALSE, err |-> TRUE, tr |-> TDomainSep(tr0, LblIpa)]
  ELSE
  LET b0  == IPABVector(ap, z)
      t1  == TAppendScalar(TAppendScalar(TAppendPoint(TDomainSep(tr0, LblIpa), LblC, C), LblInput, z), LblOutput, y)
      w   == TChallengeValue(t1, LblW)
      t2  == TAfterChallenge(t1, LblW)
      q   == EMul(w, cfg.Q)
      C0  == EAdd(C, EMul(y, q))
      st  == FoldLeft(LAMBDA S, k :
                        LET t3 == TAppendPoint(TAppendPoint(S.tr, LblL, proof.L[k]), LblR, proof.R[k])
                            x  == TChallengeValue(t3, LblX)
                            xi == FInv(WR, x)
                        IN  [tr |-> TAfterChallenge(t3, LblX),
                             C  |-> EAdd(S.C, EAdd(EMul(x, proof.L[k]), EMul(xi, proof.R[k]))),
                             b  |-> IPAFoldScalars(IPALo(S.b), IPAHi(S.b), xi),
                             G  |-> IPAFoldPoints(IPALo(S.G), IPAHi(S.G), xi)],
                      [tr |-> t2, C |-> C0, b |-> b0, G |-> cfg.G],
                      [i \in 1 .. WRounds |-> i])
      rhs == EAdd(EMul(proof.a, st.G[1]), EMul(FMul(WR, proof.a, st.b[1]), q))
  IN  [ok |-> EEq(st.C, rhs), err |-> FALSE, tr |-> st.tr]
=============================================================================
