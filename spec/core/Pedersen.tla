------------------------------- MODULE Pedersen -------------------------------
(***************************************************************************)
(* Pedersen commitments over a fixed basis (C05) and the derivation of the *)
(* basis (CRS) from a seed.                                                *)
(***************************************************************************)
EXTENDS Poly

(* Commit(G, v) = sum_i v[i] * G[i]   (v may be shorter than G) *)
PCommit(G, v) == EMsm(v, SubSeq(G, 1, Len(v)))

(* CRS: for counter i = 0, 1, ..: x = BE(Hash(seed o BE64(i))) mod WP, encoded on WCB
   bytes; keep the decoded point when the untrusted compressed decoder accepts it.
   `tries` bounds the search (the specification is total: fewer points if it runs out). *)
PCounterBytes(i) == [k \in 1 .. 8 |-> IF k >= 5 THEN (i \div (256 ^ (8 - k))) % 256 ELSE 0]     \* i < 2^31
PCRSCandidate(seed, i) == EDec(NToBytesBE(NMod(NFromBytesBE(WHash(seed \o PCounterBytes(i))), WP), WCB))
PCRS(seed, n, tries) ==
  FoldLeft(LAMBDA acc, i : IF Len(acc) = n THEN acc
                           ELSE LET c == PCRSCandidate(seed, i - 1)
                                IN  IF c[1] THEN Append(acc, c[2]) ELSE acc,
           <<>>, [i \in 1 .. tries |-> i])
=============================================================================
