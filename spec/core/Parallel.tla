------------------------------- MODULE Parallel -------------------------------
(***************************************************************************)
(* The parallel range splitter common/parallel.Execute (C20).              *)
(* Specification part: what a correct split of [0, n) among at most m      *)
(* workers is (a RELATION: any such split is acceptable).                  *)
(* Implementation-shaped part: the ranges the code computes.               *)
(***************************************************************************)
EXTENDS Integers, Sequences, FiniteSets, SequencesExt

(* ranges: a sequence of <<start, end>> pairs, in any order *)
IsSplit(n, m, ranges) ==
  LET k == Len(ranges) IN
  /\ \A i \in 1 .. k : 0 <= ranges[i][1] /\ ranges[i][1] < ranges[i][2] /\ ranges[i][2] <= n      \* non-empty, in bounds
  /\ \A i, j \in 1 .. k : i # j => (ranges[i][2] <= ranges[j][1] \/ ranges[j][2] <= ranges[i][1]) \* pairwise disjoint
  /\ FoldLeft(LAMBDA acc, r : acc + (r[2] - r[1]), 0, ranges) = n                                 \* together exactly n indices
  /\ k <= (IF n < m THEN n ELSE m)                                                               \* at most min(n, m) invocations

(* the code: nbIterations / nbTasks per task, the remainder spread over the first tasks *)
ExecRanges(n, m) ==
  LET per0   == n \div m
      tasks  == IF per0 < 1 THEN n ELSE m
      per    == IF per0 < 1 THEN 1 ELSE per0
      extra  == n - tasks * per
  IN  [i \in 1 .. tasks |->
         LET off   == IF i - 1 < extra THEN i - 1 ELSE extra
             start == (i - 1) * per + off
         IN  <<start, start + per + (IF i - 1 < extra THEN 1 ELSE 0)>>]

(* the same ranges obtained by running the code's loop statement by statement (the loop that spec/proof/ExecuteInd.tla
   proves correct for all n, m): state <<ranges so far, extraTasks, extraTasksOffset>> *)
LoopRanges(n, m) ==
  LET per0   == n \div m
      tasks  == IF per0 < 1 THEN n ELSE m
      per    == IF per0 < 1 THEN 1 ELSE per0
      st == FoldLeft(LAMBDA s, i : LET start == i * per + s[3]
                                       bump  == IF s[2] > 0 THEN 1 ELSE 0
                                   IN  <<Append(s[1], <<start, start + per + bump>>), s[2] - bump, s[3] + bump>>,
                     <<<<>>, n - tasks * per, 0>>, [k \in 1 .. tasks |-> k - 1])
  IN  st[1]
=============================================================================
