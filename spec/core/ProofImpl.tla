------------------------------- MODULE ProofImpl -------------------------------
(***************************************************************************)
(* Implementation-shaped part of multiproof.go and ipa/verifier.go         *)
(* (C01 C02 C03): what the code does beyond the textbook protocol.         *)
(*  - groupPolynomialsByEvaluationPoint: W workers, each aggregating a     *)
(*    batch of ceil(n/W) consecutive openings per evaluation index; the    *)
(*    results are merged in ARRIVAL order, the first arrival for an index  *)
(*    handing over its slice                                               *)
(*  - the prover's quotient per USED index, the inverse denominators       *)
(*    compacted over the used indices only                                 *)
(*  - the verifier's grouped evaluations, 1/(t - i) for the whole domain   *)
(*    by batch inversion, one MSM for E                                    *)
(*  - the optimised IPA verifier: folding scalars selected by the bits of  *)
(*    the index, one MSM for the folded basis                              *)
(***************************************************************************)
EXTENDS Codec, PolyImpl

Nil == <<>>          \* "no polynomial for this index" (a nil slice)
PIx(n) == [i \in 1 .. n |-> i]

(* one worker: openings start+1 .. end (1-based, clipped), grouped per evaluation index 0 .. WDom-1 *)
GWorker(fs, pw, zs, start, end) ==
  FoldLeft(LAMBDA g, i : IF i <= start \/ i > end \/ i > Len(fs) THEN g
                         ELSE LET z == zs[i] + 1
                                  cur == IF g[z] = Nil THEN PZeroVec ELSE g[z]
                              IN  [g EXCEPT ![z] = FVecAdd(WR, cur, FVecScale(WR, pw[i], fs[i]))],
           [z \in 1 .. WDom |-> Nil], PIx(Len(fs)))
(* order: the sequence in which the workers' results arrive (a permutation of 1..W) *)
GGroup(fs, pw, zs, W, order) ==
  LET n == Len(fs)
      batch == (n + W - 1) \div W
      res(k) == GWorker(fs, pw, zs, (k - 1) * batch, k * batch)
  IN  FoldLeft(LAMBDA g, k : LET r == res(order[k]) IN
                             [z \in 1 .. WDom |-> IF r[z] = Nil THEN g[z] ELSE IF g[z] = Nil THEN r[z] ELSE FVecAdd(WR, g[z], r[z])],
               [z \in 1 .. WDom |-> Nil], PIx(W))
(* what grouping must compute *)
GSpec(fs, pw, zs) == [z \in 1 .. WDom |->
                        LET S == {i \in 1 .. Len(fs) : zs[i] + 1 = z} IN
                        IF S = {} THEN Nil
                        ELSE FoldLeft(LAMBDA acc, i : IF i \in S THEN FVecAdd(WR, acc, FVecScale(WR, pw[i], fs[i])) ELSE acc, PZeroVec, PIx(Len(fs)))]

(* the prover after grouping.  compact = TRUE: inverse denominators indexed by the order of the used
   indices (the code); FALSE: indexed by the evaluation index itself (the mutant of the property text). *)
ImplGH(bw, inv, grouped, t, compact) ==
  LET used == SelectSeq(PIx(WDom), LAMBDA z : grouped[z] # Nil)
      g    == FoldLeft(LAMBDA acc, z : FVecAdd(WR, acc, PIDivideOnDomain(bw, inv, z - 1, grouped[z])), PZeroVec, used)
      den  == FBatchInv(WR, [k \in 1 .. Len(used) |-> FSub(WR, t, PFr(used[k] - 1))])
      h    == FoldLeft(LAMBDA S, z : <<FVecAdd(WR, S[1], FVecScale(WR, IF compact THEN den[S[2]] ELSE (IF z <= Len(den) THEN den[z] ELSE N0), grouped[z])), S[2] + 1>>,
                       <<PZeroVec, 1>>, used)[1]
  IN  [g |-> g, h |-> h]

ImplProve(tr0, cfg, bw, inv, ap, ops, W, order, compact) ==
  LET n   == Len(ops)
      Cs  == [i \in 1 .. n |-> ops[i].C]
      zs  == [i \in 1 .. n |-> ops[i].z]
      fs  == [i \in 1 .. n |-> ops[i].f]
  IN
  ELet(MPAbsorb(tr0, Cs, zs, [i \in 1 .. n |-> fs[i][zs[i] + 1]]), LAMBDA t1 :
  ELet(GGroup(fs, FPowers(WR, TChallengeValue(t1, LblRr), n), zs, W, order), LAMBDA grp :
  ELet(PCommit(cfg.G, ImplGH(bw, inv, grp, N0, compact).g), LAMBDA D :
  ELet(TAppendPoint(TAfterChallenge(t1, LblRr), LblD, D), LAMBDA t3 :
  ELet(TChallengeValue(t3, LblT), LAMBDA t :
  ELet(ImplGH(bw, inv, grp, t, compact), LAMBDA gh :
  ELet(PCommit(cfg.G, gh.h), LAMBDA E :
  ELet(IPAProve(TAppendPoint(TAfterChallenge(t3, LblT), LblE, E), cfg, ap, ESub(E, D), FVecSub(WR, gh.h, gh.g), t), LAMBDA ip :
    [D |-> D, ipa |-> ip.proof, tr |-> ip.tr, g |-> gh.g, h |-> gh.h, grouped |-> grp]))))))))

-----------------------------------------------------------------------------
(* the optimised IPA verifier *)
IBit(i, k) == (i \div (2 ^ k)) % 2
ImplIPAVerify(tr0, cfg, ap, C, proof, z, y) ==
  IF Len(proof.L) # Len(proof.R) \/ Len(proof.L) # WRounds
  THEN [ok |-> FALSE, err |-> TRUE, tr |-> TDomainSep(tr0, LblIpa)]
  ELSE
  ELet(TAppendScalar(TAppendScalar(TAppendPoint(TDomainSep(tr0, LblIpa), LblC, C), LblInput, z), LblOutput, y), LAMBDA t1 :
  ELet(EMul(TChallengeValue(t1, LblW), cfg.Q), LAMBDA q :
  \* generateChallenges
  ELet(FoldLeft(LAMBDA S, k : ELet(TAppendPoint(TAppendPoint(S[1], LblL, proof.L[k]), LblR, proof.R[k]), LAMBDA t3 :
                                <<TAfterChallenge(t3, LblX), Append(S[2], TChallengeValue(t3, LblX))>>),
                <<TAfterChallenge(t1, LblW), <<>>>>, PIx(WRounds)), LAMBDA ch :
  ELet(FBatchInv(WR, ch[2]), LAMBDA xi :
  ELet(FoldLeft(LAMBDA acc, k : EMsm(<<NMod(N1, WR), ch[2][k], xi[k]>>, <<acc, proof.L[k], proof.R[k]>>), EAdd(C, EMul(y, q)), PIx(WRounds)), LAMBDA Cn :
  ELet([i \in 1 .. WDom |-> FoldLeft(LAMBDA sc, k : IF IBit(i - 1, WRounds - k) = 1 THEN FMul(WR, sc, xi[k]) ELSE sc, NMod(N1, WR), PIx(WRounds))], LAMBDA s :
  ELet(EAdd(EMul(proof.a, EMsm(s, cfg.G)), EMul(FMul(WR, FInner(WR, IPABVector(ap, z), s), proof.a), q)), LAMBDA got :
    [ok |-> EEqCross(got, Cn), err |-> FALSE, tr |-> ch[1]])))))))

ImplVerify(tr0, cfg, ap, proof, Cs, zs, ys) ==
  IF Len(Cs) # Len(ys) \/ Len(Cs) # Len(zs) \/ Len(Cs) = 0
  THEN [ok |-> FALSE, err |-> TRUE, tr |-> TDomainSep(tr0, LblMultiproof)]
  ELSE
  LET n == Len(Cs) IN
  ELet(MPAbsorb(tr0, Cs, zs, ys), LAMBDA t1 :
  ELet(FPowers(WR, TChallengeValue(t1, LblRr), n), LAMBDA pw :
  ELet(TAppendPoint(TAfterChallenge(t1, LblRr), LblD, proof.D), LAMBDA t3 :
  ELet(TChallengeValue(t3, LblT), LAMBDA t :
  ELet(FoldLeft(LAMBDA acc, i : [acc EXCEPT ![zs[i] + 1] = FAdd(WR, @, FMul(WR, pw[i], ys[i]))], PZeroVec, PIx(n)), LAMBDA ge :
  ELet(FBatchInv(WR, [i \in 1 .. WDom |-> FSub(WR, t, PFr(i - 1))]), LAMBDA den :
  ELet(EMsm([i \in 1 .. n |-> FMul(WR, pw[i], den[zs[i] + 1])], Cs), LAMBDA E :
    ImplIPAVerify(TAppendPoint(TAfterChallenge(t3, LblT), LblE, E), cfg, ap, ESub(E, proof.D), proof.ipa, t,
                  FoldLeft(LAMBDA acc, i : IF ge[i] = N0 THEN acc ELSE FAdd(WR, acc, FMul(WR, ge[i], den[i])), N0, PIdx)))))))))
=============================================================================
