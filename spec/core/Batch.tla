--------------------------------- MODULE Batch ---------------------------------
(***************************************************************************)
(* Batch helpers of banderwagon (C19), implementation-shaped: a HEAP of    *)
(* element cells (raw triples) and a list of POINTERS into it, which may   *)
(* repeat.  BatchNormalize writes through the pointers; the serialisers    *)
(* and the map only read.                                                  *)
(***************************************************************************)
EXTENDS EdwardsImpl, FiniteSets

BIdx(n) == [i \in 1 .. n |-> i]
(* Montgomery's trick as fp.BatchInvert does it: zeros are skipped and stay zero *)
BBatchInvert(zs) ==
  LET n  == Len(zs)
      fw == FoldLeft(LAMBDA S, i : IF zs[i] = N0 THEN <<Append(S[1], N0), S[2]>>
                                   ELSE <<Append(S[1], S[2]), FMul(WP, S[2], zs[i])>>, <<<<>>, N1>>, BIdx(n))
      bw == FoldLeft(LAMBDA S, k : LET i == n + 1 - k IN
                                   IF zs[i] = N0 THEN S
                                   ELSE <<[S[1] EXCEPT ![i] = FMul(WP, S[1][i], S[2])], FMul(WP, S[2], zs[i])>>,
                     <<fw[1], FInv(WP, fw[2])>>, BIdx(n))
  IN  bw[1]

(* BatchNormalize(heap, ptrs): [err, heap'].  dedupe = TRUE is the code (pointer de-duplication first);
   dedupe = FALSE shows why it is needed.  `order` is the enumeration order of the de-duplicated set
   (a Go map iteration: arbitrary). *)
BNormalize(heap, ptrs, dedupe, order) ==
  LET cells == IF dedupe THEN order ELSE ptrs
      n     == Len(cells)
  IN  IF \E i \in 1 .. n : heap[cells[i]][3] = N0 THEN [err |-> TRUE, heap |-> heap]
      ELSE LET invs == BBatchInvert([i \in 1 .. n |-> heap[cells[i]][3]])
               \* write-back, one cell at a time (order irrelevant when cells are distinct)
               h2 == FoldLeft(LAMBDA h, i : [h EXCEPT ![cells[i]] = <<FMul(WP, h[cells[i]][1], invs[i]), FMul(WP, h[cells[i]][2], invs[i]), N1>>],
                              heap, BIdx(n))
           IN  [err |-> FALSE, heap |-> h2]

BElementsToBytes(heap, ptrs) ==
  LET zi == BBatchInvert([i \in 1 .. Len(ptrs) |-> heap[ptrs[i]][3]])
  IN  [i \in 1 .. Len(ptrs) |->
         LET X == FMul(WP, heap[ptrs[i]][1], zi[i])  Y == FMul(WP, heap[ptrs[i]][2], zi[i])
         IN  NToBytesBE(IF FLexLargest(WP, Y) THEN X ELSE FNeg(WP, X), WCB)]
BToBytesUncompressed(heap, ptrs) ==
  LET zi == BBatchInvert([i \in 1 .. Len(ptrs) |-> heap[ptrs[i]][3]])
  IN  [i \in 1 .. Len(ptrs) |-> NToBytesBE(FMul(WP, heap[ptrs[i]][1], zi[i]), WCB) \o NToBytesBE(FMul(WP, heap[ptrs[i]][2], zi[i]), WCB)]
BMapToScalar(heap, ptrs) ==
  LET yi == BBatchInvert([i \in 1 .. Len(ptrs) |-> heap[ptrs[i]][2]])
  IN  [i \in 1 .. Len(ptrs) |-> NMod(NFromBytesLE(NToBytesLE(FMul(WP, heap[ptrs[i]][1], yi[i]), WCB)), WR)]
=============================================================================
