----------------------------- MODULE PedersenImpl -----------------------------
(***************************************************************************)
(* Implementation-shaped part of banderwagon/precomp.go (C05): the signed  *)
(* window recoding of PrecompPoint.ScalarMul, generic in the machine       *)
(* (LB-bit limbs, NLimb limbs, window size WS dividing LB).  Output: the   *)
(* sequence of table accesses <<window index, entry index (1-based),       *)
(* negated?>> and the carry left after the top window.                     *)
(***************************************************************************)
EXTENDS Integers, Sequences, SequencesExt, FiniteSets

PP2(k) == FoldLeft(LAMBDA x, i : 2 * x, 1, [i \in 1 .. k |-> i])
(* scalar given as a natural number (regular form), limbs little-endian *)
PRecode(s, LB, NLimb, WS) ==
  LET perLimb == LB \div WS
      nw      == NLimb * perLimb
      half    == PP2(WS - 1)
      full    == PP2(WS)
  IN  FoldLeft(LAMBDA S, k :
                 \* S = <<accesses, carry>>; window k-1 counts from the least significant
                 LET wv == ((s \div PP2(WS * (k - 1))) % full) + S[2]
                 IN  IF wv = 0 THEN S
                     ELSE IF wv > half
                          THEN (IF full - wv # 0 THEN <<Append(S[1], <<k - 1, full - wv, TRUE>>), 1>> ELSE <<S[1], 1>>)
                          ELSE <<Append(S[1], <<k - 1, wv, FALSE>>), 0>>,
               <<<<>>, 0>>, [k \in 1 .. nw |-> k])
(* value of a recoding: sum of +-(entry) * 2^(WS * window) *)
PRecodeValue(acc, WS) ==
  FoldLeft(LAMBDA v, a : IF a[3] THEN v - a[2] * PP2(WS * a[1]) ELSE v + a[2] * PP2(WS * a[1]), 0, acc)
=============================================================================
