------------------------------- MODULE CodecImpl -------------------------------
(***************************************************************************)
(* Implementation-shaped part of proof deserialisation (C10): an io.Reader *)
(* as a BEHAVIOUR - the stream, the sizes of the chunks it hands out, and  *)
(* whether it reports io.EOF together with the last chunk or only on the   *)
(* next call - io.ReadAtLeast as the standard library defines it, the      *)
(* field-by-field reads of MultiProof.Read and the EOF probe.              *)
(***************************************************************************)
EXTENDS Codec

(* reader state: [rest, chunks, eofWith]; Read(st, m) = <<n, err, bytes, st'>>, err in {"nil", "EOF"} *)
RMin(a, b) == IF a < b THEN a ELSE b
RRead(st, m) ==
  IF st.rest = <<>> THEN <<0, "EOF", <<>>, st>>
  ELSE LET c == IF st.chunks = <<>> THEN Len(st.rest) ELSE Head(st.chunks)
           n == RMin(RMin(m, c), Len(st.rest))
           ch2 == IF st.chunks = <<>> THEN <<>> ELSE IF n < c THEN <<c - n>> \o Tail(st.chunks) ELSE Tail(st.chunks)
           rest2 == SubSeq(st.rest, n + 1, Len(st.rest))
       IN  <<n, IF rest2 = <<>> /\ st.eofWith THEN "EOF" ELSE "nil", SubSeq(st.rest, 1, n), [st EXCEPT !.rest = rest2, !.chunks = ch2]>>
(* io.ReadAtLeast(r, buf, len(buf)): <<ok, bytes, st'>> *)
RReadFull(st, m) ==
  LET r == FoldLeft(LAMBDA S, k : IF Len(S[1]) >= m \/ S[2] # "nil" THEN S
                                  ELSE LET x == RRead(S[3], m - Len(S[1])) IN <<S[1] \o x[3], x[2], x[4]>>,
                    <<<<>>, "nil", st>>, [k \in 1 .. (m + 1) |-> k])
  IN  <<Len(r[1]) >= m, r[1], r[3]>>
(* MultiProof.Read over a reader behaviour; legacyProbe = the EOF probe that ignores the byte count *)
RReadMP(st0, legacyProbe) ==
  LET d  == RReadFull(st0, WCB)
      ls == FoldLeft(LAMBDA S, k : IF ~S[1] THEN S ELSE LET x == RReadFull(S[3], WCB) IN <<x[1] /\ EDec(x[2])[1], S[2] \o x[2], x[3]>>,
                     <<d[1] /\ EDec(d[2])[1], d[2], d[3]>>, [k \in 1 .. (2 * WRounds) |-> k])
      a  == IF ls[1] THEN RReadFull(ls[3], WSB) ELSE <<FALSE, <<>>, ls[3]>>
      okf == ls[1] /\ a[1] /\ CScalarOK(a[2])
      pr == RRead(a[3], 1)
  IN  IF ~okf THEN [ok |-> FALSE, bytes |-> <<>>]
      ELSE [ok |-> (IF legacyProbe THEN pr[2] = "EOF" ELSE pr[1] = 0 /\ pr[2] = "EOF"), bytes |-> ls[2] \o a[2]]
=============================================================================
