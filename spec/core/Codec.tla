--------------------------------- MODULE Codec ---------------------------------
(***************************************************************************)
(* Serialisation of proofs (C10, C03).  Layout of a multiproof:            *)
(*   Enc(D) | Enc(L_1..L_k) | Enc(R_1..R_k) | LE(a),   k = WRounds         *)
(* and of an IPA proof the same without D.                                 *)
(***************************************************************************)
EXTENDS Multiproof

CIPALen == 2 * WRounds * WCB + WSB
CMPLen  == WCB + CIPALen

CConcat(ss) == FoldLeft(LAMBDA acc, s : acc \o s, <<>>, ss)
CWriteIPA(p) == CConcat([i \in 1 .. Len(p.L) |-> EEnc(p.L[i])]) \o CConcat([i \in 1 .. Len(p.R) |-> EEnc(p.R[i])]) \o TScalarBytes(p.a)
CWriteMP(p)  == EEnc(p.D) \o CWriteIPA(p.ipa)

CChunk(bs, off, len) == SubSeq(bs, off + 1, off + len)
(* canonical scalar: integer value < WR *)
CScalarOK(bs) == Len(bs) = WSB /\ NLt(NFromBytesLE(bs), WR)

(* exactly the accepted byte strings *)
CValidIPABytes(bs) ==
  /\ Len(bs) = CIPALen
  /\ \A i \in 0 .. (2 * WRounds - 1) : EDec(CChunk(bs, i * WCB, WCB))[1]
  /\ CScalarOK(CChunk(bs, 2 * WRounds * WCB, WSB))
CValidMPBytes(bs) ==
  /\ Len(bs) = CMPLen
  /\ EDec(CChunk(bs, 0, WCB))[1]
  /\ CValidIPABytes(SubSeq(bs, WCB + 1, Len(bs)))

CReadIPA(bs) == [L |-> [i \in 1 .. WRounds |-> EDec(CChunk(bs, (i - 1) * WCB, WCB))[2]],
                 R |-> [i \in 1 .. WRounds |-> EDec(CChunk(bs, (WRounds + i - 1) * WCB, WCB))[2]],
                 a |-> NFromBytesLE(CChunk(bs, 2 * WRounds * WCB, WSB))]
CReadMP(bs)  == [D |-> EDec(CChunk(bs, 0, WCB))[2], ipa |-> CReadIPA(SubSeq(bs, WCB + 1, Len(bs)))]
=============================================================================
