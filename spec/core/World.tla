-------------------------------- MODULE World --------------------------------
(***************************************************************************)
(* Parameters of a "world": the concrete fields, curve, domain and hash    *)
(* the library specification is instantiated at.                           *)
(*   real world  : WP = BLS12-381 scalar modulus, WR = Bandersnatch group  *)
(*                 order, a = -5, domain 256, SHA-256  (spec/real)         *)
(*   small worlds: Bandersnatch-like curves over F_37 .. F_257 with the    *)
(*                 same structure (a = -5 non-square, d non-square, group  *)
(*                 order 4*WR, WR prime), small domains, toy hash          *)
(* Numbers are values of the number layer Num (native integers or limb     *)
(* tuples); WDom, WRounds, WCB, WSB are always native integers.            *)
(***************************************************************************)
CONSTANTS WP,        \* base field modulus (prime)
          WR,        \* scalar field modulus = order of the prime subgroup
          WA, WD,    \* twisted Edwards coefficients: WA x^2 + y^2 = 1 + WD x^2 y^2
          WGX, WGY,  \* generator of the prime-order subgroup
          WNR,       \* a quadratic non-residue of F_WP (for Tonelli-Shanks)
          WRNR,      \* a quadratic non-residue of F_WR
          WDom,      \* size of the evaluation domain {0..WDom-1} (power of two)
          WRounds,   \* log2(WDom)
          WCB,       \* bytes per encoded base-field coordinate
          WSB,       \* bytes per encoded scalar
          WHash(_)   \* hash: byte string -> byte string
=============================================================================
