------------------------------ MODULE Transcript ------------------------------
(***************************************************************************)
(* The Fiat-Shamir transcript (C14) as a state machine.  State: the bytes  *)
(* already committed to the hash ("hashed": protocol label, or nothing     *)
(* after a challenge) and the not-yet-hashed suffix ("pending").           *)
(*   challenge(l) = LE( Hash(hashed o pending o l) ) mod WR                *)
(* after which the state is (nothing, l o LE(challenge)).                  *)
(***************************************************************************)
EXTENDS Edwards

TNew(label)        == [h |-> label, p |-> <<>>]
TDomainSep(t, l)   == [t EXCEPT !.p = @ \o l]
TAppend(t, l, msg) == [t EXCEPT !.p = @ \o l \o msg]
TScalarBytes(s)    == NToBytesLE(s, WSB)
TAppendScalar(t, l, s) == TAppend(t, l, TScalarBytes(s))
TAppendPoint(t, l, P)  == TAppend(t, l, EEnc(P))
TChallengeValue(t, l)  == NMod(NFromBytesLE(WHash(t.h \o t.p \o l)), WR)
TAfterChallenge(t, l)  == [h |-> <<>>, p |-> l \o TScalarBytes(TChallengeValue(t, l))]
(* the absorbed byte stream that determines the next challenge with label l *)
TStream(t, l) == t.h \o t.p \o l
=============================================================================
