----------------------------- MODULE ScalarCodec -----------------------------
(***************************************************************************)
(* Scalar encodings (C16).  Specification part: what each decoder returns  *)
(* as a function of the byte string, and the frame condition "the input    *)
(* buffer is not modified".  Implementation-shaped part: the decoders as   *)
(* the code writes them (reverse, then parse big-endian, then reduce or    *)
(* compare), with the buffer as explicit state.                            *)
(***************************************************************************)
EXTENDS Field, World

SEncLE(s) == NToBytesLE(s, WSB)
SEncBE(s) == NToBytesBE(s, WSB)
SDecReduceBE(bs) == NMod(NFromBytesBE(bs), WR)
SDecReduceLE(bs) == NMod(NFromBytesLE(bs), WR)
SCanonAccepts(bs) == NLt(NFromBytesLE(bs), WR)
SDecCanonLE(bs) == IF SCanonAccepts(bs) THEN <<TRUE, NFromBytesLE(bs)>> ELSE <<FALSE, N0>>

(* implementation shape: a call is [buf_after, ok, value].  copyFirst = TRUE is the code after the
   repair (reverse a private copy); copyFirst = FALSE reverses the caller's slice in place. *)
SImplSetBytesLE(buf, copyFirst) ==
  LET rev == Reverse(buf)
  IN  [buf |-> IF copyFirst THEN buf ELSE rev, ok |-> TRUE, val |-> NMod(NFromBytesBE(rev), WR)]
SImplSetBytesLECanonical(buf, copyFirst) ==
  LET rev == Reverse(buf)
      v   == NFromBytesBE(rev)
  IN  [buf |-> IF copyFirst THEN buf ELSE rev, ok |-> NLt(v, WR), val |-> IF NLt(v, WR) THEN v ELSE N0]
=============================================================================
