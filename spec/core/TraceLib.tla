------------------------------- MODULE TraceLib -------------------------------
(***************************************************************************)
(* Common machinery of the trace specifications.  A trace is an NDJSON     *)
(* file recorded from the real code (one event per completed API call or   *)
(* hook); TLC steps through it, one event per step.  A deviation never     *)
(* disables the step: it is appended to `bad` (bounded), so the whole      *)
(* trace is examined and one run reports every deviation.  At the end the  *)
(* verdict is written as JSON for the runner.                              *)
(***************************************************************************)
EXTENDS Integers, Sequences, TLC, IOUtils, Json, SequencesExt, FiniteSets

TraceFile   == IOEnv.VERIF_TRACE
VerdictFile == IOEnv.VERIF_VERDICT
Trace       == ndJsonDeserialize(TraceFile)
MaxBad      == 300       \* total cap
MaxPerSig   == 3         \* examples kept per finding signature: a flood of one (possibly known)
                         \* finding can never crowd out a different one

Has(e, f) == f \in DOMAIN e
(* a deviation: which line, which property, what was wrong, the finding signature *)
Dev(l, prop, what, sig) == [line |-> l, prop |-> prop, what |-> what, sig |-> sig]
AddOne(b, d) == IF Len(b) >= MaxBad \/ Cardinality({i \in 1 .. Len(b) : b[i].sig = d.sig /\ b[i].prop = d.prop}) >= MaxPerSig
                THEN b ELSE Append(b, d)
AddBad(b, devs) == FoldLeft(AddOne, b, devs)
One(ok, l, prop, what, sig) == IF ok THEN <<>> ELSE <<Dev(l, prop, what, sig)>>
Bump(c, k) == IF k \in DOMAIN c THEN [c EXCEPT ![k] = @ + 1] ELSE c @@ (k :> 1)
WriteVerdict(l, bad, cnt) ==
  JsonSerialize(VerdictFile, [events |-> l - 1, total |-> Len(Trace), bad |-> bad, judged |-> cnt])
=============================================================================
