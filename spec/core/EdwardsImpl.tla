----------------------------- MODULE EdwardsImpl -----------------------------
(***************************************************************************)
(* Implementation-shaped part of the group layer: the projective formulas  *)
(* and shortcuts AS THE CODE HAS THEM (gnark-crypto's twisted Edwards      *)
(* PointProj as used by banderwagon.Element, and the extended mixed        *)
(* addition of bandersnatch.ExtendedAddNormalized), on raw triples         *)
(* <<X, Y, Z>> / quadruples <<X, Y, Z, T>>.  The small worlds check that   *)
(* they refine module Edwards for every representation.                    *)
(***************************************************************************)
EXTENDS Edwards

IZero == <<N0, N0, N0>>                      \* the uninitialised element
IIdentity == <<N0, N1, N1>>
IAff(s) == EFromProj(s[1], s[2], s[3])
IValid(s) == s[3] # N0 /\ EValid(IAff(s))

mulA(x) == FMul(WP, WA, x)

(* add-2008-bbjlp *)
IAdd(p, q) ==
  LET A == FMul(WP, p[3], q[3])
      B == FSqr(WP, A)
      C == FMul(WP, p[1], q[1])
      D == FMul(WP, p[2], q[2])
      E == FMul(WP, FMul(WP, WD, C), D)
      F == FSub(WP, B, E)
      G == FAdd(WP, B, E)
      H == FAdd(WP, p[1], p[2])
      I == FAdd(WP, q[1], q[2])
      X == FMul(WP, FMul(WP, FSub(WP, FSub(WP, FMul(WP, H, I), C), D), A), F)
      Y == FMul(WP, FMul(WP, FAdd(WP, D, FNeg(WP, mulA(C))), A), G)
  IN  <<X, Y, FMul(WP, F, G)>>
(* dbl-2008-bbjlp *)
IDouble(p) ==
  LET B == FSqr(WP, FAdd(WP, p[1], p[2]))
      C == FSqr(WP, p[1])
      D == FSqr(WP, p[2])
      E == mulA(C)
      F == FAdd(WP, E, D)
      H == FSqr(WP, p[3])
      J == FSub(WP, FSub(WP, F, H), H)
  IN  <<FMul(WP, FSub(WP, FSub(WP, B, C), D), J), FMul(WP, FSub(WP, E, D), F), FMul(WP, F, J)>>
(* madd-2008-bbjlp: q affine <<x, y>> *)
IMixedAdd(p, q) ==
  LET B == FSqr(WP, p[3])
      C == FMul(WP, p[1], q[1])
      D == FMul(WP, p[2], q[2])
      E == FMul(WP, FMul(WP, WD, C), D)
      F == FSub(WP, B, E)
      G == FAdd(WP, B, E)
      H == FAdd(WP, p[1], p[2])
      I == FAdd(WP, q[1], q[2])
      X == FMul(WP, FMul(WP, FSub(WP, FSub(WP, FMul(WP, H, I), C), D), p[3]), F)
      Y == FMul(WP, FMul(WP, FSub(WP, D, mulA(C)), p[3]), G)
  IN  <<X, Y, FMul(WP, F, G)>>
INeg(p) == <<FNeg(WP, p[1]), p[2], p[3]>>
ISub(p, q) == IAdd(p, INeg(q))
(* windowed double-and-add of the dependency (scalarMulWindowed); the GLV routine actually used by
   ScalarMul exists only for the real curve and is judged at real size against EMul *)
IMulWindowed(k, p) ==
  LET n == NBitLen(k)
  IN  FoldLeft(LAMBDA acc, i : LET dd == IDouble(acc) IN IF NBit(k, n - i) = 1 THEN IAdd(dd, p) ELSE dd,
               IIdentity, EIdx(n))

(* Equal: cross multiplication with the (0,0) guard *)
IEqual(p, q) ==
  /\ ~(p[1] = N0 /\ p[2] = N0)
  /\ ~(q[1] = N0 /\ q[2] = N0)
  /\ FMul(WP, p[1], q[2]) = FMul(WP, p[2], q[1])
(* Bytes: affine conversion skipped when Z = 1 *)
IBytes(p) ==
  LET a == IF p[3] = N1 THEN <<p[1], p[2]>> ELSE IAff(p)
      x == IF FLexLargest(WP, a[2]) THEN a[1] ELSE FNeg(WP, a[1])
  IN  NToBytesBE(x, WCB)
IBytesUncompressed(p) == LET a == IAff(p) IN NToBytesBE(a[1], WCB) \o NToBytesBE(a[2], WCB)
IMapToField(p) == FDiv(WP, p[1], p[2])
INormalize(p) == LET a == IAff(p) IN <<a[1], a[2], N1>>

(* extended coordinates <<X, Y, Z, T>>, second operand normalised <<x, y, t>>:
   madd-2008-hwcd with a = -5 written as the code does (H = B - (-(A) * 5)) *)
IExtAddNormalized(p, q) ==
  LET A == FMul(WP, p[1], q[1])
      B == FMul(WP, p[2], q[2])
      C == FMul(WP, FMul(WP, p[4], q[3]), WD)
      D == p[3]
      E == FSub(WP, FSub(WP, FMul(WP, FAdd(WP, q[1], q[2]), FAdd(WP, p[1], p[2])), A), B)
      F == FSub(WP, D, C)
      G == FAdd(WP, D, C)
      H == FSub(WP, B, FMul(WP, FNeg(WP, A), FOfInt(WP, 5)))
  IN  <<FMul(WP, E, F), FMul(WP, G, H), FMul(WP, F, G), FMul(WP, E, H)>>
IExtNeg(q) == <<FNeg(WP, q[1]), q[2], FNeg(WP, q[3])>>
IExtIdentity == <<N0, N1, N1, N0>>
IExtOfAffine(a) == <<a[1], a[2], FMul(WP, a[1], a[2])>>       \* normalised extended point
=============================================================================
