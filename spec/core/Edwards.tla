------------------------------- MODULE Edwards -------------------------------
(***************************************************************************)
(* The twisted Edwards curve  WA x^2 + y^2 = 1 + WD x^2 y^2  over F_WP and *)
(* the Banderwagon prime-order group built on it (C06 C07 C08 C11).        *)
(*                                                                         *)
(* A point is an affine pair <<x, y>>.  A Banderwagon ELEMENT is the class *)
(* { (x,y), (-x,-y) } of a point of the subgroup of order 2*WR on which    *)
(* 1 - WA x^2 is a non-zero square; any member represents it.              *)
(* Projective representations <<X, Y, Z>> (what the code holds) are mapped *)
(* to affine by EFromProj.                                                 *)
(***************************************************************************)
EXTENDS Field, World

EIdx(n) == [i \in 1 .. n |-> i]
EId     == <<N0, N1>>
ENeg(P) == <<FNeg(WP, P[1]), P[2]>>
ETors(P) == <<FNeg(WP, P[1]), FNeg(WP, P[2])>>      \* P + (0,-1): the other member of the class

EOnCurve(P) ==
  LET x2 == FSqr(WP, P[1])  y2 == FSqr(WP, P[2])
  IN  FAdd(WP, FMul(WP, WA, x2), y2) = FAdd(WP, N1, FMul(WP, WD, FMul(WP, x2, y2)))

(* unified affine addition law (complete on the subgroup of interest: WA, WD are such
   that no denominator vanishes there; the small worlds check this for every pair) *)
EAddPure(p, a, d, P, Q) ==
  LET x1 == P[1]  y1 == P[2]  x2 == Q[1]  y2 == Q[2]
      x1y2 == FMul(p, x1, y2)   y1x2 == FMul(p, y1, x2)
      y1y2 == FMul(p, y1, y2)   x1x2 == FMul(p, x1, x2)
      k    == FMul(p, d, FMul(p, x1x2, y1y2))
  IN  << FDiv(p, FAdd(p, x1y2, y1x2), FAdd(p, N1, k)),
         FDiv(p, FSub(p, y1y2, FMul(p, a, x1x2)), FSub(p, N1, k)) >>
EAdd(P, Q) == EAddPure(WP, WA, WD, P, Q)
ESub(P, Q) == EAdd(P, ENeg(Q))
EDbl(P)    == EAdd(P, P)
EAddDefined(P, Q) ==
  LET k == FMul(WP, WD, FMul(WP, FMul(WP, P[1], Q[1]), FMul(WP, P[2], Q[2])))
  IN  FAdd(WP, N1, k) # N0 /\ FSub(WP, N1, k) # N0

(* scalar multiplication: double-and-add, most significant bit first.
   EMulX is the operator a Java accelerator may replace in the real world. *)
EMulPure(p, a, d, k, P) ==
  LET n == NBitLen(k)
  IN  FoldLeft(LAMBDA acc, i : LET dd == EAddPure(p, a, d, acc, acc)
                               IN  IF NBit(k, n - i) = 1 THEN EAddPure(p, a, d, dd, P) ELSE dd,
               <<N0, N1>>, EIdx(n))
EMulX(p, a, d, k, P) == EMulPure(p, a, d, k, P)
EMul(k, P) == EMulX(WP, WA, WD, k, P)

(* multi-scalar multiplication: sum_i ks[i] * Ps[i] *)
EMsmPure(p, a, d, ks, Ps) ==
  FoldLeft(LAMBDA acc, i : EAddPure(p, a, d, acc, EMulPure(p, a, d, ks[i], Ps[i])), <<N0, N1>>, EIdx(Len(ks)))
EMsmX(p, a, d, ks, Ps) == EMsmPure(p, a, d, ks, Ps)
EMsm(ks, Ps) == EMsmX(WP, WA, WD, ks, Ps)

ESum(Ps) == FoldLeft(LAMBDA acc, Q : EAdd(acc, Q), EId, Ps)

-----------------------------------------------------------------------------
(* Banderwagon *)
ESubgroupX(x) == FLegendre(WP, FSub(WP, N1, FMul(WP, WA, FSqr(WP, x)))) = 1
EValid(P) == EOnCurve(P) /\ ESubgroupX(P[1])             \* P represents a Banderwagon element
EEq(P, Q) == P = Q \/ P = ETors(Q)                        \* same class
(* the code's test: x1*y2 = x2*y1, false if either side is (0,0) *)
EEqCross(P, Q) == /\ ~(P[1] = N0 /\ P[2] = N0)
                  /\ ~(Q[1] = N0 /\ Q[2] = N0)
                  /\ FMul(WP, P[1], Q[2]) = FMul(WP, Q[1], P[2])

(* projective -> affine; Z # 0 *)
EFromProj(X, Y, Z) == LET zi == FInv(WP, Z) IN <<FMul(WP, X, zi), FMul(WP, Y, zi)>>
EProjValid(X, Y, Z) == Z # N0 /\ EValid(EFromProj(X, Y, Z))

(* canonical compressed encoding: big-endian x * sign(y) *)
ECanonX(P) == IF FLexLargest(WP, P[2]) THEN P[1] ELSE FNeg(WP, P[1])
EEnc(P) == NToBytesBE(ECanonX(P), WCB)
EEncUncompressed(P) == NToBytesBE(P[1], WCB) \o NToBytesBE(P[2], WCB)

(* y-coordinate from x: y^2 = (WA x^2 - 1)/(WD x^2 - 1); <<TRUE, y>> with y the larger
   (largest = TRUE) or smaller root, or <<FALSE, N0>> when no point has this x *)
EYFromX(x, largest) ==
  LET x2  == FSqr(WP, x)
      num == FSub(WP, FMul(WP, WA, x2), N1)
      den == FSub(WP, FMul(WP, WD, x2), N1)
  IN  ELet(FSqrt(WP, WNR, FDiv(WP, num, den)), LAMBDA rt :
        IF ~rt[1] THEN <<FALSE, N0>>
        ELSE IF FLexLargest(WP, rt[2]) = largest THEN rt ELSE <<TRUE, FNeg(WP, rt[2])>>)

(* untrusted compressed decoding: <<ok, point>> *)
EDec(bs) ==
  IF Len(bs) # WCB THEN <<FALSE, EId>>
  ELSE ELet(NFromBytesBE(bs), LAMBDA x :
         IF ~NLt(x, WP) THEN <<FALSE, EId>>
         ELSE ELet(EYFromX(x, TRUE), LAMBDA y :
                IF ~y[1] THEN <<FALSE, EId>>
                ELSE IF ~ESubgroupX(x) THEN <<FALSE, EId>>
                ELSE <<TRUE, <<x, y[2]>>>>))
(* acceptance predicate stated without computing a root *)
EDecAccepts(bs) ==
  /\ Len(bs) = WCB
  /\ LET x == NFromBytesBE(bs)
         x2  == FSqr(WP, NMod(x, WP))
         num == FSub(WP, FMul(WP, WA, x2), N1)
         den == FSub(WP, FMul(WP, WD, x2), N1)
     IN  /\ NLt(x, WP)
         /\ FIsQR(WP, FDiv(WP, num, den))
         /\ ESubgroupX(x)

(* untrusted uncompressed decoding: both coordinates canonical, y the larger root *)
EDecUncompressed(bs) ==
  IF Len(bs) # 2 * WCB THEN <<FALSE, EId>>
  ELSE ELet(<<NFromBytesBE(SubSeq(bs, 1, WCB)), NFromBytesBE(SubSeq(bs, WCB + 1, 2 * WCB))>>, LAMBDA xy :
         IF ~NLt(xy[1], WP) \/ ~NLt(xy[2], WP) THEN <<FALSE, EId>>
         ELSE ELet(EYFromX(xy[1], TRUE), LAMBDA y :
                IF ~y[1] \/ y[2] # xy[2] THEN <<FALSE, EId>>
                ELSE IF ~ESubgroupX(xy[1]) THEN <<FALSE, EId>>
                ELSE <<TRUE, xy>>))
(* trusted uncompressed decoding: coordinates reduced, nothing checked *)
EDecUncompressedTrusted(bs) ==
  <<NMod(NFromBytesBE(SubSeq(bs, 1, WCB)), WP), NMod(NFromBytesBE(SubSeq(bs, WCB + 1, 2 * WCB)), WP)>>

(* map to the base field and on to the scalar field (C11) *)
EMapToField(P)  == FDiv(WP, P[1], P[2])
EMapToScalar(P) == NMod(NFromBytesLE(NToBytesLE(EMapToField(P), WCB)), WR)
=============================================================================
