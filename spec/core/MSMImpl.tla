-------------------------------- MODULE MSMImpl --------------------------------
(***************************************************************************)
(* Implementation-shaped part of bandersnatch/multiexp.go (C09), on        *)
(* integers: the window-size chooser and split loop of MultiExp, and the   *)
(* signed-digit partition of the scalars (word-level, generic in the       *)
(* machine: NLimb limbs of LB bits).                                       *)
(***************************************************************************)
EXTENDS Integers, Sequences, SequencesExt, FiniteSets

MP2(k) == FoldLeft(LAMBDA x, i : 2 * x, 1, [i \in 1 .. k |-> i])
ImplementedCs == <<4, 5, 6, 7, 8, 9, 10, 11, 12, 13, 14, 15, 16, 20, 21>>

(* bestC: the first c (in list order) of minimal cost = bits/c * (n + 2^c).  The code compares float64 values;
   distinct costs differ by a relative gap far above 2^-53, so the comparison of exact rationals - done here by
   cross multiplication, with the common factor `bits` dropped - agrees with it. *)
CostLess(n, c1, c2) == (n + MP2(c1)) * c2 < (n + MP2(c2)) * c1
BestC(n) == FoldLeft(LAMBDA best, i : IF CostLess(n, ImplementedCs[i], best) THEN ImplementedCs[i] ELSE best,
                     ImplementedCs[1], [i \in 1 .. (Len(ImplementedCs) - 1) |-> i + 1])
NbChunks(bits, c) == bits \div c + (IF bits % c # 0 THEN 1 ELSE 0)

(* the split loop of MultiExp: state [C, splits, pts, chunks]; terminates when chunks >= tasks *)
RECURSIVE SplitLoop(_, _, _, _)
SplitLoop(bits, tasks, splits, pts) ==
  LET C == BestC(pts)
      ch == NbChunks(bits, C) * splits
  IN  IF ch >= tasks THEN [C |-> C, splits |-> splits, pts |-> pts, chunks |-> ch]
      ELSE SplitLoop(bits, tasks, 2 * splits, pts \div 2)
(* index ranges given to the splits: splits-1 ranges of pts points, the remainder to the last one *)
SplitRanges(n, r) == [i \in 1 .. r.splits |-> IF i < r.splits THEN <<(i - 1) * r.pts, i * r.pts>> ELSE <<(r.splits - 1) * r.pts, n>>]

-----------------------------------------------------------------------------
(* partitionScalars for ONE scalar, given as its limbs (1-based sequence, least significant first).
   Returns [words: the encoded digits, digits: the signed digits, carry: carry left at the end]. *)
Trunc(v, LB) == v % MP2(LB)                                   \* a Go uint of LB bits
AndMask(w, mask, LB) ==                                        \* w & mask for mask = contiguous bits lo..hi-1 (already truncated)
  LET lo == mask[1]  hi == mask[2] IN ((w % MP2(hi)) \div MP2(lo)) * MP2(lo)
Selector(chunk, c, LB, NLimb) ==
  LET jc    == chunk * c
      index == jc \div LB
      shift == jc - index * LB
      multi == (LB % c # 0) /\ shift > LB - c /\ index < NLimb - 1
      nbHigh == shift - (LB - c)
  IN  [index |-> index, shift |-> shift,
       hi |-> (IF shift + c > LB THEN LB ELSE shift + c),       \* mask = bits shift .. hi-1 of the word (the rest is shifted out)
       multi |-> multi, nbHigh |-> nbHigh, shiftHigh |-> c - nbHigh]
Partition(limbs, c, LB, NLimb) ==
  LET nb  == NbChunks(LB * NLimb, c)
      max == MP2(c - 1)
      msb == MP2(c - 1)
      st  == FoldLeft(LAMBDA S, k :
                 LET s   == Selector(k - 1, c, LB, NLimb)
                     d0  == S.carry + AndMask(limbs[s.index + 1], <<s.shift, s.hi>>, LB) \div MP2(s.shift)
                     d1  == IF s.multi THEN d0 + (limbs[s.index + 2] % MP2(s.nbHigh)) * MP2(s.shiftHigh) ELSE d0
                 IN  IF d1 = 0 THEN [S EXCEPT !.carry = 0, !.digits = Append(@, 0)]
                     ELSE LET dg   == IF d1 >= max THEN d1 - MP2(c) ELSE d1
                              bits == IF dg >= 0 THEN dg ELSE (0 - dg - 1) + msb
                              w1   == [S.words EXCEPT ![s.index + 1] = @ + Trunc(bits * MP2(s.shift), LB)]       \* |= : the window was zero before
                              w2   == IF s.multi THEN [w1 EXCEPT ![s.index + 2] = @ + bits \div MP2(s.shiftHigh)] ELSE w1
                          IN  [carry |-> IF d1 >= max THEN 1 ELSE 0, digits |-> Append(S.digits, dg), words |-> w2],
               [carry |-> 0, digits |-> <<>>, words |-> [i \in 1 .. NLimb |-> 0]], [k \in 1 .. nb |-> k])
  IN  st
(* how msmProcessChunk reads a digit back from the encoded words *)
ReadBits(words, chunk, c, LB, NLimb) ==
  LET s  == Selector(chunk, c, LB, NLimb)
      b0 == AndMask(words[s.index + 1], <<s.shift, s.hi>>, LB) \div MP2(s.shift)
  IN  IF s.multi THEN b0 + (words[s.index + 2] % MP2(s.nbHigh)) * MP2(s.shiftHigh) ELSE b0
DecodeBits(b, c) == IF b = 0 THEN 0 ELSE IF b < MP2(c - 1) THEN b ELSE 0 - ((b - MP2(c - 1)) + 1)
=============================================================================
