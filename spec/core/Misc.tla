--------------------------------- MODULE Misc ---------------------------------
(***************************************************************************)
(* The exported behaviour of the library that the listed properties only   *)
(* touch indirectly: powers of a challenge, the extended-coordinate        *)
(* helpers of the precomputed tables, trusted decoding, the on-curve test, *)
(* uncompressed affine I/O, proof equality, and the inspection/conversion  *)
(* helpers of the scalar field.  Two-world text like every core module.    *)
(***************************************************************************)
EXTENDS Codec

(* common.PowersOf(x, n) = <1, x, .., x^(n-1)>, n >= 1 (the code indexes element 0 unconditionally: n = 0 panics) *)
MPowersOf(x, n) == FPowers(WR, x, n)

(* bandersnatch.PointExtendedFromProj: same X, Y, Z and T = X*Y/Z *)
MExtFromProj(p) == <<p[1], p[2], p[3], FMul(WP, FMul(WP, p[1], p[2]), FInv(WP, p[3]))>>
(* a well-formed extended point: on the curve as (X/Z, Y/Z), and T*Z = X*Y *)
MExtWellFormed(e) == e[3] # N0 /\ FMul(WP, e[4], e[3]) = FMul(WP, e[1], e[2])
MExtAff(e) == EFromProj(e[1], e[2], e[3])

(* trusted compressed decoding (SetBytesUnsafe): everything the untrusted decoder checks EXCEPT the subgroup test *)
MDecUnsafe(bs) ==
  IF Len(bs) # WCB THEN <<FALSE, EId>>
  ELSE ELet(NFromBytesBE(bs), LAMBDA x :
         IF ~NLt(x, WP) THEN <<FALSE, EId>>
         ELSE ELet(EYFromX(x, TRUE), LAMBDA y : IF ~y[1] THEN <<FALSE, EId>> ELSE <<TRUE, <<x, y[2]>>>>))

(* Element.IsOnCurve on raw projective coordinates: the affine point X/Z, Y/Z (0/0 = 0) satisfies the curve equation *)
MIsOnCurve(p) == LET zi == FInv(WP, p[3]) IN EOnCurve(<<FMul(WP, p[1], zi), FMul(WP, p[2], zi)>>)

(* uncompressed affine I/O of package bandersnatch: BE(x) o BE(y); reading reduces each coordinate, checks nothing *)
MUncWrite(a) == NToBytesBE(a[1], WCB) \o NToBytesBE(a[2], WCB)
MUncRead(bs) == <<NMod(NFromBytesBE(SubSeq(bs, 1, WCB)), WP), NMod(NFromBytesBE(SubSeq(bs, WCB + 1, 2 * WCB)), WP)>>

(* scalar-field helpers on the STORED words (value w < 2^256) *)
MBit(w, i) == IF i >= 256 THEN 0 ELSE NBit(w, i)
MIsWord(w) == NBitLen(w) <= 64
(* decimal string of a natural number *)
MDigit(d) == <<"0", "1", "2", "3", "4", "5", "6", "7", "8", "9">>[d + 1]
MDec(v) ==
  IF v = N0 THEN "0"
  ELSE FoldLeft(LAMBDA S, i : IF S[2] = N0 THEN S ELSE <<MDigit(NToInt(NMod(S[2], NOfInt(10)))) \o S[1], NDiv(S[2], NOfInt(10))>>,
                <<"", v>>, [i \in 1 .. 80 |-> i])[1]
(* Element.String(): small values and small negatives are printed as such *)
MString(v) == IF NBitLen(v) <= 64 THEN MDec(v)
              ELSE IF NBitLen(NSub(WR, v)) <= 64 THEN "-" \o MDec(NSub(WR, v))
              ELSE MDec(v)
=============================================================================
