-------------------------------- MODULE Field --------------------------------
(***************************************************************************)
(* Prime fields F_m over the number layer.  Elements are numbers in        *)
(* [0, m).  This is the SPECIFICATION of field arithmetic (C15, C16, C17): *)
(* integers modulo m.  Implementation-shaped algorithms (Montgomery CIOS,  *)
(* binary inversion, table square root) live in their own modules and are  *)
(* checked to refine these operators.                                      *)
(***************************************************************************)
EXTENDS Num

FIdx(n) == [i \in 1 .. n |-> i]

FAdd(m, a, b) == NAddMod(a, b, m)
FSub(m, a, b) == NSubMod(a, b, m)
FNeg(m, a)    == IF a = N0 THEN N0 ELSE NSub(m, a)
FDbl(m, a)    == NAddMod(a, a, m)
FMul(m, a, b) == NMulMod(a, b, m)
FSqr(m, a)    == NMulMod(a, a, m)
FInv(m, a)    == NInvMod(a, m)                    \* inverse of 0 is 0
FDiv(m, a, b) == NMulMod(a, NInvMod(b, m), m)
FExp(m, a, e) == NPowMod(a, e, m)
FOfInt(m, i)  == NMod(NOfInt(i), m)
FHalfOrder(m) == NShr(NSub(m, N1), 1)             \* (m-1)/2

(* Legendre symbol as -1, 0, 1 (Euler's criterion) *)
FLegendre(m, a) == IF a = N0 THEN 0
                   ELSE IF NPowMod(a, FHalfOrder(m), m) = N1 THEN 1 ELSE -1
FIsQR(m, a) == FLegendre(m, a) >= 0

(* "lexicographically largest": a > (m-1)/2 *)
FLexLargest(m, a) == NLt(FHalfOrder(m), a)

(* what a square root is *)
FIsSqrt(m, v, s) == FMul(m, s, s) = v

(***************************************************************************)
(* Tonelli-Shanks, deterministic, used as the specification's way to       *)
(* COMPUTE a root (either root is a root; callers select by sign).         *)
(* m - 1 = q * 2^s with q odd; nr a non-residue.  Returns <<TRUE, root>>   *)
(* or <<FALSE, N0>>.  The small worlds check it against FIsSqrt for every  *)
(* element (MC_Sqrt).                                                      *)
(***************************************************************************)
FTwoAdicity(m) == LET mm == NSub(m, N1)
                  IN  CHOOSE s \in 1 .. NBitLen(mm) : NBit(mm, s) = 1 /\ \A j \in 0 .. (s - 1) : NBit(mm, j) = 0
FSqrN(m, a, k) == FoldLeft(LAMBDA x, i : FMul(m, x, x), a, FIdx(k))     \* a^(2^k)
(* least i >= 1 with t^(2^i) = 1, scanning successive squares; state <<current square, answer or 0>> *)
FOrderExp(m, t, bound) ==
  FoldLeft(LAMBDA S, i : IF S[2] # 0 THEN S
                         ELSE LET sq == FMul(m, S[1], S[1]) IN <<sq, IF sq = N1 THEN i ELSE 0>>,
           <<t, 0>>, FIdx(bound))[2]
FSqrt(m, nr, v) ==
  IF v = N0 THEN <<TRUE, N0>>
  ELSE IF FLegendre(m, v) # 1 THEN <<FALSE, N0>>
  ELSE
    LET s  == FTwoAdicity(m)
        q  == NShr(NSub(m, N1), s)
        c0 == NPowMod(nr, q, m)
        t0 == NPowMod(v, q, m)
        r0 == NPowMod(v, NShr(NAdd(q, N1), 1), m)
        \* state <<M, c, t, R>>; at most s rounds
        st == FoldLeft(LAMBDA S, round :
                         IF S[3] = N1 THEN S
                         ELSE ELet(FOrderExp(m, S[3], S[1] - 1), LAMBDA i :
                              ELet(FSqrN(m, S[2], S[1] - i - 1), LAMBDA b :
                              ELet(FMul(m, b, b), LAMBDA b2 :
                                <<i, b2, FMul(m, S[3], b2), FMul(m, S[4], b)>>))),
                       <<s, c0, t0, r0>>, FIdx(s))
    IN  <<TRUE, st[4]>>

(* Montgomery representation with radix 2^bits: x |-> x * 2^bits mod m *)
FMontRadix(m, bits) == NPowMod(NOfInt(2), NOfInt(bits), m)
FToMont(m, bits, x)   == FMul(m, x, FMontRadix(m, bits))
FFromMont(m, bits, x) == FMul(m, x, FInv(m, FMontRadix(m, bits)))

(* batch inversion SPECIFICATION: position-wise inverse, zeros stay zero *)
FBatchInv(m, xs) == [i \in 1 .. Len(xs) |-> FInv(m, xs[i])]

(* inner product and vector helpers *)
FInner(m, a, b) == FoldLeft(LAMBDA acc, i : FAdd(m, acc, FMul(m, a[i], b[i])), N0, FIdx(Len(a)))
FVecAdd(m, a, b) == [i \in 1 .. Len(a) |-> FAdd(m, a[i], b[i])]
FVecSub(m, a, b) == [i \in 1 .. Len(a) |-> FSub(m, a[i], b[i])]
FVecScale(m, k, a) == [i \in 1 .. Len(a) |-> FMul(m, k, a[i])]
FPowers(m, x, n) == FoldLeft(LAMBDA acc, i : Append(acc, IF i = 1 THEN NMod(N1, m) ELSE FMul(m, acc[i - 1], x)), <<>>, FIdx(n))
=============================================================================
