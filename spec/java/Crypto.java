import java.security.MessageDigest;
import tlc2.value.impl.*;

public class Crypto {
  public static Value Sha256(Value bs) throws Exception {
    MessageDigest md = MessageDigest.getInstance("SHA-256");
    return BigNat.fromBytes(md.digest(BigNat.toBytes(bs)));
  }
}
