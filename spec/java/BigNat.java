import java.math.BigInteger;
import tlc2.value.impl.*;

/* Java accelerators for module BigNat (java.math.BigInteger).  Not axioms: SelfTest.tla compares
 * each of them with the pure TLA+ definition of the same operator. */
public class BigNat {
  static final int LB = 28;
  static final BigInteger MASK = BigInteger.ONE.shiftLeft(LB).subtract(BigInteger.ONE);

  public static BigInteger toBig(Value v) {
    Value[] e = ((TupleValue) v.toTuple()).elems;
    if (e.length == 0) return BigInteger.ZERO;
    // little-endian limbs -> big-endian bytes via long accumulation
    BigInteger r = BigInteger.ZERO;
    for (int i = e.length - 1; i >= 0; i--) {
      r = r.shiftLeft(LB).or(BigInteger.valueOf(((IntValue) e[i]).val));
    }
    return r;
  }
  public static Value fromBig(BigInteger b) {
    if (b.signum() < 0) throw new RuntimeException("BigNat: negative result");
    int n = (b.bitLength() + LB - 1) / LB;
    Value[] e = new Value[n];
    for (int i = 0; i < n; i++) {
      e[i] = IntValue.gen(b.and(MASK).intValue());
      b = b.shiftRight(LB);
    }
    return new TupleValue(e);
  }
  static int toInt(Value v) { return ((IntValue) v).val; }
  public static byte[] toBytes(Value v) {
    Value[] e = ((TupleValue) v.toTuple()).elems;
    byte[] r = new byte[e.length];
    for (int i = 0; i < e.length; i++) r[i] = (byte) ((IntValue) e[i]).val;
    return r;
  }
  public static Value fromBytes(byte[] b) {
    Value[] e = new Value[b.length];
    for (int i = 0; i < b.length; i++) e[i] = IntValue.gen(b[i] & 0xff);
    return new TupleValue(e);
  }

  public static Value BCmp(Value a, Value b) { return IntValue.gen(Integer.signum(toBig(a).compareTo(toBig(b)))); }
  public static Value BAdd(Value a, Value b) { return fromBig(toBig(a).add(toBig(b))); }
  public static Value BSub(Value a, Value b) { return fromBig(toBig(a).subtract(toBig(b))); }
  public static Value BMul(Value a, Value b) { return fromBig(toBig(a).multiply(toBig(b))); }
  public static Value BBitLen(Value a) { return IntValue.gen(toBig(a).bitLength()); }
  public static Value BBit(Value a, Value i) { return IntValue.gen(toBig(a).testBit(toInt(i)) ? 1 : 0); }
  public static Value BDivMod(Value a, Value m) {
    BigInteger[] qr = toBig(a).divideAndRemainder(toBig(m));
    return new TupleValue(new Value[]{fromBig(qr[0]), fromBig(qr[1])});
  }
  public static Value BDiv(Value a, Value m) { return fromBig(toBig(a).divide(toBig(m))); }
  public static Value BMod(Value a, Value m) { return fromBig(toBig(a).mod(toBig(m))); }
  public static Value BShr(Value a, Value k) { return fromBig(toBig(a).shiftRight(toInt(k))); }
  public static Value BAddMod(Value a, Value b, Value m) { return fromBig(toBig(a).add(toBig(b)).mod(toBig(m))); }
  public static Value BSubMod(Value a, Value b, Value m) { return fromBig(toBig(a).subtract(toBig(b)).mod(toBig(m))); }
  public static Value BMulMod(Value a, Value b, Value m) { return fromBig(toBig(a).multiply(toBig(b)).mod(toBig(m))); }
  public static Value BPowMod(Value b, Value e, Value m) { return fromBig(toBig(b).modPow(toBig(e), toBig(m))); }
  public static Value BInvMod(Value a, Value m) {
    BigInteger x = toBig(a), mm = toBig(m);
    x = x.mod(mm);
    if (x.signum() == 0) return fromBig(BigInteger.ZERO);
    return fromBig(x.modInverse(mm));
  }
  public static Value BFromBytesBE(Value bs) { return fromBig(new BigInteger(1, toBytes(bs))); }
  public static Value BFromBytesLE(Value bs) {
    byte[] b = toBytes(bs); byte[] r = new byte[b.length];
    for (int i = 0; i < b.length; i++) r[i] = b[b.length - 1 - i];
    return fromBig(new BigInteger(1, r));
  }
  public static Value BToBytesLE(Value a, Value n) {
    int len = toInt(n); BigInteger x = toBig(a); byte[] r = new byte[len];
    for (int i = 0; i < len; i++) { r[i] = (byte) x.and(BigInteger.valueOf(255)).intValue(); x = x.shiftRight(8); }
    return fromBytes(r);
  }
  public static Value BToBytesBE(Value a, Value n) {
    int len = toInt(n); BigInteger x = toBig(a); byte[] r = new byte[len];
    for (int i = len - 1; i >= 0; i--) { r[i] = (byte) x.and(BigInteger.valueOf(255)).intValue(); x = x.shiftRight(8); }
    return fromBytes(r);
  }
}
