import java.math.BigInteger;
import tlc2.value.impl.*;

/* Java accelerators for EMulX / EMsmX of module Edwards (real world only: the class file lives in
 * spec/real).  Extended twisted Edwards coordinates, unified addition (add-2008-hwcd, general a).
 * SelfTestCurve.tla compares them with the pure TLA+ definitions EMulPure / EMsmPure. */
public class Edwards {
  static final class Pt { BigInteger X, Y, Z, T; Pt(BigInteger x, BigInteger y, BigInteger z, BigInteger t) { X = x; Y = y; Z = z; T = t; } }
  static final class Curve {
    final BigInteger p, a, d;
    Curve(BigInteger p, BigInteger a, BigInteger d) { this.p = p; this.a = a; this.d = d; }
    Pt id() { return new Pt(BigInteger.ZERO, BigInteger.ONE, BigInteger.ONE, BigInteger.ZERO); }
    Pt fromAffine(BigInteger x, BigInteger y) { return new Pt(x, y, BigInteger.ONE, x.multiply(y).mod(p)); }
    Pt add(Pt P, Pt Q) {
      BigInteger A = P.X.multiply(Q.X).mod(p);
      BigInteger B = P.Y.multiply(Q.Y).mod(p);
      BigInteger C = P.T.multiply(d).mod(p).multiply(Q.T).mod(p);
      BigInteger D = P.Z.multiply(Q.Z).mod(p);
      BigInteger E = P.X.add(P.Y).multiply(Q.X.add(Q.Y)).subtract(A).subtract(B).mod(p);
      BigInteger F = D.subtract(C).mod(p);
      BigInteger G = D.add(C).mod(p);
      BigInteger H = B.subtract(a.multiply(A)).mod(p);
      return new Pt(E.multiply(F).mod(p), G.multiply(H).mod(p), F.multiply(G).mod(p), E.multiply(H).mod(p));
    }
    Pt neg(Pt P) { return new Pt(P.X.negate().mod(p), P.Y, P.Z, P.T.negate().mod(p)); }
    Pt mul(BigInteger k, Pt P) {
      // 4-bit fixed window
      Pt[] tab = new Pt[16]; tab[0] = id(); tab[1] = P;
      for (int i = 2; i < 16; i++) tab[i] = add(tab[i - 1], P);
      Pt acc = id();
      int nb = (k.bitLength() + 3) / 4;
      for (int w = nb - 1; w >= 0; w--) {
        for (int j = 0; j < 4; j++) acc = add(acc, acc);
        int dgt = k.shiftRight(4 * w).intValue() & 15;
        if (dgt != 0) acc = add(acc, tab[dgt]);
      }
      return acc;
    }
    Pt msm(BigInteger[] ks, Pt[] Ps) {
      int n = ks.length;
      if (n < 40) {
        Pt acc = id();
        for (int i = 0; i < n; i++) if (ks[i].signum() != 0) acc = add(acc, mul(ks[i], Ps[i]));
        return acc;
      }
      int c = 8, maxbits = 0;
      for (BigInteger k : ks) maxbits = Math.max(maxbits, k.bitLength());
      int nw = (maxbits + c - 1) / c;
      Pt total = id();
      for (int w = nw - 1; w >= 0; w--) {
        for (int j = 0; j < c; j++) total = add(total, total);
        Pt[] bucket = new Pt[1 << c];
        for (int i = 0; i < n; i++) {
          int dgt = ks[i].shiftRight(c * w).intValue() & ((1 << c) - 1);
          if (dgt != 0) bucket[dgt] = bucket[dgt] == null ? Ps[i] : add(bucket[dgt], Ps[i]);
        }
        Pt run = id(), sum = id();
        for (int b = (1 << c) - 1; b >= 1; b--) {
          if (bucket[b] != null) run = add(run, bucket[b]);
          sum = add(sum, run);
        }
        total = add(total, sum);
      }
      return total;
    }
    Value toValue(Pt P) {
      if (P.Z.signum() == 0) throw new RuntimeException("Edwards accelerator: exceptional addition (Z = 0); operands are not in the subgroup the specification works on");
      BigInteger zi = P.Z.modInverse(p);
      return new TupleValue(new Value[]{BigNat.fromBig(P.X.multiply(zi).mod(p)), BigNat.fromBig(P.Y.multiply(zi).mod(p))});
    }
  }
  static Pt pt(Curve c, Value v) {
    Value[] e = ((TupleValue) v.toTuple()).elems;
    return c.fromAffine(BigNat.toBig(e[0]), BigNat.toBig(e[1]));
  }
  public static Value EMulX(Value p, Value a, Value d, Value k, Value P) {
    Curve c = new Curve(BigNat.toBig(p), BigNat.toBig(a), BigNat.toBig(d));
    return c.toValue(c.mul(BigNat.toBig(k), pt(c, P)));
  }
  public static Value EMsmX(Value p, Value a, Value d, Value ks, Value Ps) {
    Curve c = new Curve(BigNat.toBig(p), BigNat.toBig(a), BigNat.toBig(d));
    Value[] kv = ((TupleValue) ks.toTuple()).elems;
    Value[] pv = ((TupleValue) Ps.toTuple()).elems;
    if (kv.length != pv.length) throw new RuntimeException("EMsmX: length mismatch");
    BigInteger[] kk = new BigInteger[kv.length]; Pt[] pp = new Pt[pv.length];
    for (int i = 0; i < kv.length; i++) { kk[i] = BigNat.toBig(kv[i]); pp[i] = pt(c, pv[i]); }
    return c.toValue(c.msm(kk, pp));
  }
}
