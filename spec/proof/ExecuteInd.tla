----------------------------- MODULE ExecuteInd -----------------------------
(***************************************************************************)
(* C20 for ALL n >= 0 and m >= 1: the loop of common/parallel.Execute,     *)
(* statement by statement, with an inductive invariant that Apalache       *)
(* discharges symbolically (no bound on n or m):                           *)
(*                                                                         *)
(*   apalache-mc check --cinit=CInit --init=Init    --inv=IndInv --length=0   (base)           *)
(*   apalache-mc check --cinit=CInit --init=IndInit --inv=IndInv --length=1   (step)           *)
(*   apalache-mc check --cinit=CInit --init=IndInit --inv=Safe   --length=0   (IndInv => Safe) *)
(*   apalache-mc check --cinit=CInitMut --init=Init --inv=Safe --length=4     (must FAIL)      *)
(*                                                                         *)
(* The code (execute.go):                                                  *)
(*   nbTasks := m;  per := n / nbTasks                                     *)
(*   if per < 1 { per = 1; nbTasks = n }                                   *)
(*   extra := n - nbTasks*per;  off := 0                                   *)
(*   for i := 0; i < nbTasks; i++ {                                        *)
(*     start := i*per + off;  end := start + per                           *)
(*     if extra > 0 { end++; extra--; off++ }                              *)
(*     go work(start, end) }                                               *)
(*                                                                         *)
(* Abstract state of the ranges handed out so far: their number (= i),     *)
(* the end of the last one (they are issued left to right), the number of  *)
(* indices covered, and whether each was non-empty, within [0, n) and      *)
(* started exactly where its predecessor ended (`contig`).  A sequence of  *)
(* non-empty ranges, each starting where the previous one ended, the first *)
(* at 0 and the last ending at n, is a split of [0, n): Parallel!IsSplit   *)
(* (pairwise disjoint, in bounds, n indices in total); the count bound is  *)
(* tasks <= min(n, m).                                                     *)
(***************************************************************************)
EXTENDS Integers

CONSTANT
  \* @type: Bool;
  DropRemainder        \* TRUE: the mutant design that never hands out the remainder (the invariant must FAIL: self-test of the proof)
CInit    == DropRemainder = FALSE
CInitMut == DropRemainder = TRUE

VARIABLES
  \* @type: Int;
  n,
  \* @type: Int;
  m,
  \* @type: Int;
  per,
  \* @type: Int;
  tasks,
  \* @type: Int;
  extra,
  \* @type: Int;
  off,
  \* @type: Int;
  i,
  \* @type: Int;
  lastEnd,
  \* @type: Int;
  covered,
  \* @type: Bool;
  contig,
  \* @type: Bool;
  done

(* integer division as the code's: q = n / m  <=>  m*q <= n < m*q + m   (n >= 0, m >= 1) *)
IsQuot(q, a, b) == b * q <= a /\ a < b * q + b

Init ==
  /\ n \in Nat /\ m \in Nat /\ m >= 1
  /\ \E q \in Nat :
       /\ IsQuot(q, n, m)
       /\ IF q < 1 THEN per = 1 /\ tasks = n ELSE per = q /\ tasks = m
  /\ extra = n - tasks * per
  /\ off = 0 /\ i = 0 /\ lastEnd = 0 /\ covered = 0 /\ contig = TRUE /\ done = FALSE

Iter ==
  /\ ~done /\ i < tasks
  /\ LET start == i * per + off
         bump  == IF extra > 0 /\ ~DropRemainder THEN 1 ELSE 0
         end   == start + per + bump
     IN  /\ contig' = (contig /\ start = lastEnd /\ start < end /\ 0 <= start /\ end <= n)
         /\ lastEnd' = end
         /\ covered' = covered + (end - start)
         /\ extra' = extra - bump
         /\ off' = off + bump
  /\ i' = i + 1
  /\ UNCHANGED <<n, m, per, tasks, done>>

Exit ==
  /\ ~done /\ i >= tasks
  /\ done' = TRUE
  /\ UNCHANGED <<n, m, per, tasks, extra, off, i, lastEnd, covered, contig>>

Next == Iter \/ Exit

(* the inductive invariant: everything the loop maintains *)
IndInv ==
  /\ n >= 0 /\ m >= 1 /\ per >= 1 /\ tasks >= 0
  /\ tasks <= m /\ tasks <= n
  /\ 0 <= i /\ i <= tasks
  /\ extra >= 0 /\ off >= 0
  /\ off + extra < tasks \/ (tasks = 0 /\ off + extra = 0)          \* the remainder is smaller than the number of tasks
  /\ tasks * per + off + extra = n                                  \* extra0 = n - tasks*per, extra0 = off + extra
  /\ (extra > 0 => off = i)                                         \* the first extra0 tasks get the extra index
  /\ off <= i
  /\ lastEnd = i * per + off
  /\ covered = lastEnd
  /\ contig
  /\ (done => i = tasks)

IndInit ==
  /\ n \in Int /\ m \in Int /\ per \in Int /\ tasks \in Int /\ extra \in Int /\ off \in Int /\ i \in Int
  /\ lastEnd \in Int /\ covered \in Int /\ contig \in BOOLEAN /\ done \in BOOLEAN
  /\ IndInv

(* what the user relies on, at return *)
Safe ==
  done => /\ contig                     \* non-empty, in bounds, each starting where the previous one ended (hence disjoint)
          /\ lastEnd = n                \* ... and the last one ends at n: every index of [0, n) exactly once
          /\ covered = n
          /\ i <= m /\ i <= n           \* at most min(n, m) invocations
=============================================================================
