---------------------------- MODULE GroupSplitInd ----------------------------
(***************************************************************************)
(* C01 "on any CPU count", for ALL n >= 1 openings and W >= 1 workers:     *)
(* the batches of groupPolynomialsByEvaluationPoint (multiproof.go) cover  *)
(* every opening exactly once.                                             *)
(*                                                                         *)
(*   batchSize := (n + W - 1) / W                                          *)
(*   for i := 0; i < W; i++ { go worker(i*batchSize, (i+1)*batchSize) }    *)
(*   worker(start, end): if end > n { end = n }; for k := start; k < end   *)
(*                                                                         *)
(* (ProofImpl!GGroup is the same formula; MC_Proofs explores the arrival   *)
(* orders of the workers' results for small n and W.)  Abstract state:     *)
(* workers launched so far (i), the end of the last non-empty batch        *)
(* (`covered`: batches are consecutive), whether every batch so far began  *)
(* exactly where the previous one ended or was empty (`contig`).           *)
(* Discharged by Apalache like ExecuteInd.                                 *)
(***************************************************************************)
EXTENDS Integers

CONSTANT
  \* @type: Bool;
  FloorBatch          \* TRUE: the mutant that rounds the batch size DOWN (the tail is lost): must be refuted
CInit    == FloorBatch = FALSE
CInitMut == FloorBatch = TRUE

VARIABLES
  \* @type: Int;
  n,
  \* @type: Int;
  W,
  \* @type: Int;
  bs,
  \* @type: Int;
  i,
  \* @type: Int;
  covered,
  \* @type: Bool;
  contig,
  \* @type: Bool;
  done

IsQuot(q, a, b) == b * q <= a /\ a < b * q + b

Init ==
  /\ n \in Nat /\ n >= 1 /\ W \in Nat /\ W >= 1
  /\ \E q \in Nat : IsQuot(q, IF FloorBatch THEN n ELSE n + W - 1, W) /\ bs = q
  /\ i = 0 /\ covered = 0 /\ contig = TRUE /\ done = FALSE

Min(a, b) == IF a < b THEN a ELSE b

Launch ==
  /\ ~done /\ i < W
  /\ LET start == i * bs
         end   == Min((i + 1) * bs, n)
     IN  IF start < end                      \* the worker's loop body runs for k in [start, end)
         THEN contig' = (contig /\ start = covered) /\ covered' = end
         ELSE UNCHANGED <<contig, covered>>   \* an empty batch (start >= n): nothing is processed
  /\ i' = i + 1
  /\ UNCHANGED <<n, W, bs, done>>

Exit == ~done /\ i >= W /\ done' = TRUE /\ UNCHANGED <<n, W, bs, i, covered, contig>>
Next == Launch \/ Exit

IndInv ==
  /\ n >= 1 /\ W >= 1 /\ bs >= 0
  /\ (~FloorBatch => W * bs >= n)                       \* ceil: the W batches reach the end
  /\ 0 <= i /\ i <= W
  /\ covered = Min(i * bs, n)
  /\ contig
  /\ (done => i = W)
IndInit ==
  /\ n \in Int /\ W \in Int /\ bs \in Int /\ i \in Int /\ covered \in Int /\ contig \in BOOLEAN /\ done \in BOOLEAN
  /\ IndInv
Safe == done => contig /\ covered = n      \* consecutive batches from 0 to n: every opening in exactly one batch
=============================================================================
