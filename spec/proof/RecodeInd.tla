------------------------------ MODULE RecodeInd ------------------------------
(***************************************************************************)
(* C05, the arithmetic heart of the precomputed-table commitment, for ANY  *)
(* scalar s >= 0, ANY window base B = 2^ws (B >= 2, even) and ANY number   *)
(* of windows: the signed-window recoding of PrecompPoint.ScalarMul        *)
(* (banderwagon/precomp.go) -                                              *)
(*                                                                         *)
(*   carry := 0                                                            *)
(*   for each window k, least significant first:                           *)
(*     wv := window_k(s) + carry                                           *)
(*     if wv == 0 { continue }                                             *)
(*     carry = 0                                                           *)
(*     if wv > B/2 { wv = B - wv; if wv != 0 { res -= table[k][wv-1] }; carry = 1 } *)
(*     else        { res += table[k][wv-1] }                               *)
(*                                                                         *)
(* - reads only table entries 0 .. B/2-1 of each window (the tables hold   *)
(* B/2 entries: j+1 times B^k times the point at entry j) and the signed   *)
(* sum of what it reads, plus the outgoing carry, is the scalar:           *)
(*                                                                         *)
(*      acc + (rem + carry) * B^k = s       (rem = s div B^k)              *)
(*                                                                         *)
(* so at the end (rem = 0 because s < B^nw) the result is s*P exactly when *)
(* the final carry is 0, which holds whenever the top window of s is below *)
(* B/2 (for scalars below r < 2^253: top 8-bit window <= 0x1c, top 16-bit  *)
(* window <= 0x1cfb).  PedersenImpl!PRecode is the same loop (MC_Pedersen  *)
(* explores it exhaustively for small bases); this module discharges it    *)
(* symbolically with Apalache:                                             *)
(*                                                                         *)
(*   --cinit=CInit8   --init=Init    --inv=IndInv --length=0   (base)      *)
(*   --cinit=CInit8   --init=IndInit --inv=IndInv --length=1   (step)      *)
(*   --cinit=CInit8   --init=IndInit --inv=Safe   --length=0   (IndInv => Safe) *)
(*   (the same three with --cinit=CInit16, CInitAny and CInitMsm)          *)
(*   --cinit=CInitMut --init=Init    --inv=Safe   --length=3   (must FAIL) *)
(*   --cinit=CInit8   --init=Init    --inv=NoCompletedRun --length=5 (must FAIL: non-vacuity) *)
(*                                                                         *)
(* CInit8 / CInit16 fix B (the two table shapes of the CRS); CInitAny lets  *)
(* B be ANY even number up to 2^21.                                        *)
(*                                                                         *)
(* MsmForm = TRUE is the digit rule of the variable-base MSM (C09,         *)
(* bandersnatch/multiexp.go partitionScalars, window width c, B = 2^c):    *)
(*                                                                         *)
(*   digit := carry + window_k(s); carry = 0                               *)
(*   if digit == 0 { continue }                                            *)
(*   if digit >= B/2 { digit -= B; carry = 1 }                             *)
(*   digit > 0: bucket digit-1 is added;  digit < 0: bucket -digit-1 is    *)
(*   subtracted;  (digit = 0 after the subtraction: nothing)               *)
(*                                                                         *)
(* with B/2 buckets per window.  Same invariant, same Safe; "top window    *)
(* small" is d + 1 < B/2 there.  (How window_k is cut out of the 64-bit    *)
(* limbs when c does not divide 64 is MSMImpl!ReadBits, explored in the    *)
(* small world and bound by Trace_MSM.)                                    *)
(***************************************************************************)
EXTENDS Integers

CONSTANTS
  \* @type: Int;
  B,
  \* @type: Bool;
  KeepCarry,          \* TRUE: the mutant that forgets `carry = 0` (a set carry is never cleared): must be refuted
  \* @type: Bool;
  MsmForm             \* TRUE: the digit rule of bandersnatch/multiexp.go partitionScalars (see below)
CInit8     == B = 256   /\ KeepCarry = FALSE /\ MsmForm = FALSE
CInit16    == B = 65536 /\ KeepCarry = FALSE /\ MsmForm = FALSE
(* EVERY even base up to 2^21, i.e. every window width 1 .. 21 (and every even base that is not a power of two) *)
CInitAny   == (\E h \in 1 .. 1048576 : B = 2 * h) /\ KeepCarry = FALSE /\ MsmForm = FALSE
CInitMsm   == (\E h \in 1 .. 1048576 : B = 2 * h) /\ KeepCarry = FALSE /\ MsmForm = TRUE
CInitMut   == B = 256   /\ KeepCarry = TRUE /\ MsmForm = FALSE
CInitMsmMut == B = 32   /\ KeepCarry = TRUE /\ MsmForm = TRUE

VARIABLES
  \* @type: Int;
  s,
  \* @type: Int;
  rem,        \* s div B^k: the windows not yet consumed
  \* @type: Int;
  pw,         \* B^k
  \* @type: Int;
  acc,        \* signed sum of (entry index + 1) * B^window over the table reads so far
  \* @type: Int;
  carry,
  \* @type: Bool;
  idxOK,      \* every table read so far was of an entry 0 .. B/2-1
  \* @type: Bool;
  topSmall,   \* the last consumed window of s was below B/2
  \* @type: Bool;
  done

Half == B \div 2

Init ==
  /\ s \in Nat /\ rem = s /\ pw = 1 /\ acc = 0 /\ carry = 0
  /\ idxOK = TRUE /\ topSmall = TRUE /\ done = FALSE

(* one window: d = rem mod B, rem' = rem div B *)
Window ==
  /\ ~done
  /\ \E d \in 0 .. (B - 1), q \in Nat :
       /\ rem = q * B + d
       /\ rem' = q
       /\ topSmall' = (IF MsmForm THEN d + 1 < Half ELSE d < Half)
       /\ LET wv == d + carry IN
          IF wv = 0
          THEN (IF MsmForm THEN carry' = 0 /\ UNCHANGED <<acc, idxOK>> ELSE UNCHANGED <<acc, carry, idxOK>>)
          ELSE IF (IF MsmForm THEN wv >= Half ELSE wv > Half)
               THEN /\ carry' = 1
                    /\ IF B - wv # 0
                       THEN acc' = acc - (B - wv) * pw /\ idxOK' = (idxOK /\ 0 <= B - wv - 1 /\ B - wv - 1 <= Half - 1)
                       ELSE UNCHANGED <<acc, idxOK>>
               ELSE /\ carry' = (IF KeepCarry THEN carry ELSE 0)
                    /\ acc' = acc + wv * pw
                    /\ idxOK' = (idxOK /\ 0 <= wv - 1 /\ wv - 1 <= Half - 1)
  /\ pw' = pw * B
  /\ UNCHANGED <<s, done>>

(* the loop may stop once every remaining window is zero (the code always runs all 256/ws windows: s < B^nw) *)
Exit ==
  /\ ~done /\ rem = 0
  /\ done' = TRUE
  /\ UNCHANGED <<s, rem, pw, acc, carry, idxOK, topSmall>>

Next == Window \/ Exit

IndInv ==
  /\ s >= 0 /\ rem >= 0 /\ pw >= 1
  /\ carry \in {0, 1}
  /\ acc + (rem + carry) * pw = s
  /\ idxOK
  /\ (topSmall => carry = 0)
  /\ (done => rem = 0)

IndInit ==
  /\ s \in Int /\ rem \in Int /\ pw \in Int /\ acc \in Int /\ carry \in Int
  /\ idxOK \in BOOLEAN /\ topSmall \in BOOLEAN /\ done \in BOOLEAN
  /\ IndInv

(* at return: only table entries that exist were read, and - when the top window of the scalar is below B/2 - their signed sum IS the scalar *)
Safe ==
  done => /\ idxOK
          /\ acc + carry * pw = s
          /\ (topSmall => acc = s)

(* non-vacuity: a completed run over at least three windows with the exact value exists; Apalache must REFUTE this "invariant" *)
NoCompletedRun == ~(done /\ acc = s /\ s > B /\ pw > B * B)
=============================================================================
