#!/bin/sh
# Builds the framework offline from files on disk: Java accelerators (TLC module overrides) and the Go driver.
set -e
cd "$(dirname "$0")"
export GOFLAGS=-mod=mod GOPROXY=off GOSUMDB=off GOTOOLCHAIN=local
mkdir -p out/bin evidence
javac -cp /opt/veriftools/tla/tla2tools.jar:spec/real -d spec/real spec/java/BigNat.java spec/java/Crypto.java spec/java/Edwards.java
cp /repo/go.sum harness/go.sum
(cd harness && go build -tags verif -o ../out/bin/vdrive .)
# accelerators = pure TLA+ definitions; the real-world instance reproduces the repository's known-answer vectors
./check selftest > out/selftest.log 2>&1; rc=$?
grep "^selftest" out/selftest.log
[ $rc -eq 0 ] || { echo "selftest FAILED (see out/selftest.log)"; exit 1; }
echo "setup ok"
