package main

import (
	"bytes"
	"math/big"
	"strings"

	"github.com/crate-crypto/go-ipa/bandersnatch/fp"
	"github.com/crate-crypto/go-ipa/bandersnatch/fr"
	"github.com/crate-crypto/go-ipa/common"
)

// ---- family "field": scalar-field arithmetic on raw limbs through every code path (C15),
//      scalar encodings (C16) ----

type fieldCase struct {
	Op   string `json:"op"`
	Cx   []int  `json:"cx"` // limb classes of x (4 entries) or nil
	Cy   []int  `json:"cy"`
	Sx   string `json:"sx"` // named special value
	Sy   string `json:"sy"`
	Rx   int    `json:"rx"` // >0: seeded random operand number
	Ry   int    `json:"ry"`
	E    string `json:"e"`    // exponent class for exp
	N    int    `json:"n"`    // batch length
	Zp   int    `json:"zp"`   // zero positions bitmask / pattern id for batch
	Xall bool   `json:"xall"` // x ranges over all 7^4 class words
	Yall bool   `json:"yall"` // y too (complete cross product)
	Diag bool   `json:"diag"` // y = x
	Band int    `json:"band"` // >= 0: only the x-words number band, band+8, band+16, ..
	Ysub bool   `json:"ysub"` // y over the words with limb classes in {0, 2^64-1, q_i} only
	// codec
	Fn  string `json:"fn"`
	Len int    `json:"len"`
	Val string `json:"val"`
}

var rWords = wordsOfBig(fr.Modulus())

func limbClassValue(i, c int) uint64 {
	q := rWords[i]
	switch c {
	case 0:
		return 0
	case 1:
		return 1
	case 2:
		return 1 << 63
	case 3:
		return ^uint64(0)
	case 4:
		return q - 1
	case 5:
		return q
	default:
		return q + 1
	}
}

func montR() *big.Int { return new(big.Int).Mod(two256, modR) }

func specialRaw(name string) *big.Int {
	r := modR
	R := montR()
	one := big.NewInt(1)
	two := big.NewInt(2)
	sub := func(a, b *big.Int) *big.Int { return new(big.Int).Sub(a, b) }
	add := func(a, b *big.Int) *big.Int { return new(big.Int).Add(a, b) }
	half := new(big.Int).Rsh(r, 1)
	R2 := new(big.Int).Mul(R, R)
	R2.Mod(R2, r)
	m := map[string]*big.Int{
		"0": big.NewInt(0), "1": one, "2": two, "r-1": sub(r, one), "r-2": sub(r, two),
		"h-2": sub(half, two), "h-1": sub(half, one), "h": half, "h+1": add(half, one), "h+2": add(half, two),
		"R-2": sub(R, two), "R-1": sub(R, one), "R": R, "R+1": add(R, one), "R+2": add(R, two),
		"R2-1": sub(R2, one), "R2": R2, "R2+1": add(R2, one),
		"2^64-1": sub(new(big.Int).Lsh(one, 64), one), "2^64": new(big.Int).Lsh(one, 64),
		"2^128-1": sub(new(big.Int).Lsh(one, 128), one), "2^128": new(big.Int).Lsh(one, 128),
		"2^192-1": sub(new(big.Int).Lsh(one, 192), one), "2^192": new(big.Int).Lsh(one, 192),
		"2^252": new(big.Int).Lsh(one, 252),
		"-R":    sub(r, R), "-R-1": sub(sub(r, R), one), "-R+1": add(sub(r, R), one),
	}
	v, ok := m[name]
	if !ok {
		panic("unknown special value " + name)
	}
	return new(big.Int).Mod(v, r)
}

func (d *driver) fieldOperand(cl []int, sp string, rnd int, which string) fr.Element {
	switch {
	case len(cl) == 4:
		var w [4]uint64
		for i := 0; i < 4; i++ {
			w[i] = limbClassValue(i, cl[i])
		}
		return frFromRaw(rawBig(w))
	case sp != "":
		return frFromRaw(specialRaw(sp))
	default:
		p := newPrg("fieldop", d.seed, which, rnd)
		x := p.big(320)
		return frFromRaw(x)
	}
}

func expExponent(class string, d *driver, k int) *big.Int {
	one := big.NewInt(1)
	switch class {
	case "0":
		return big.NewInt(0)
	case "1":
		return one
	case "2":
		return big.NewInt(2)
	case "r-1":
		return new(big.Int).Sub(modR, one)
	case "r-2":
		return new(big.Int).Sub(modR, big.NewInt(2))
	case "r":
		return new(big.Int).Set(modR)
	case "2^64":
		return new(big.Int).Lsh(one, 64)
	case "2^300":
		return new(big.Int).Lsh(one, 300)
	default:
		return newPrg("exp", d.seed, k).big(255)
	}
}

func allClassWords(f func(cl []int)) {
	for a := 0; a < 7; a++ {
		for b := 0; b < 7; b++ {
			for c := 0; c < 7; c++ {
				for e := 0; e < 7; e++ {
					f([]int{a, b, c, e})
				}
			}
		}
	}
}

// runFieldCase expands block descriptors (xall / yall / diag) into single cases
func (d *driver) runFieldCase(w emitter, k int, c *fieldCase) {
	if c.Fn != "" {
		d.runCodecCase(w, k, c)
		return
	}
	if !c.Xall {
		d.runFieldOne(w, k, c)
		return
	}
	xi := -1
	allClassWords(func(cx []int) {
		xi++
		if c.Band >= 0 && xi%8 != c.Band {
			return
		}
		c1 := *c
		c1.Cx = cx
		switch {
		case c.Diag:
			c1.Cy = cx
			d.runFieldOne(w, k, &c1)
		case c.Yall:
			allClassWords(func(cy []int) {
				if c.Ysub {
					for _, v := range cy {
						if v != 0 && v != 3 && v != 5 {
							return
						}
					}
				}
				c2 := c1
				c2.Cy = cy
				d.runFieldOne(w, k, &c2)
			})
		default:
			d.runFieldOne(w, k, &c1)
		}
	})
}

func (d *driver) runFieldOne(w emitter, k int, c *fieldCase) {
	x := d.fieldOperand(c.Cx, c.Sx, c.Rx, "x")
	y := d.fieldOperand(c.Cy, c.Sy, c.Ry, "y")
	e := ev{"ev": "fieldop", "k": k, "op": c.Op, "x": frRaw(&x), "y": frRaw(&y)}
	out := map[string]interface{}{}
	withNoAdx := func(f func()) {
		old := fr.VerifSetSupportAdx(false)
		f()
		fr.VerifSetSupportAdx(old)
	}
	bin := func(name string, f func(z, a, b *fr.Element)) {
		var z fr.Element
		f(&z, &x, &y)
		out[name] = frRaw(&z)
		// receiver aliases first operand
		a := x
		f(&a, &a, &y)
		out[name+"_zx"] = frRaw(&a)
		// receiver aliases second operand
		b := y
		f(&b, &x, &b)
		out[name+"_zy"] = frRaw(&b)
		if x == y {
			s := x
			f(&s, &s, &s)
			out[name+"_zxy"] = frRaw(&s)
		}
	}
	un := func(name string, f func(z, a *fr.Element)) {
		var z fr.Element
		f(&z, &x)
		out[name] = frRaw(&z)
		a := x
		f(&a, &a)
		out[name+"_zx"] = frRaw(&a)
	}
	switch c.Op {
	case "add":
		bin("asm", func(z, a, b *fr.Element) { z.Add(a, b) })
		bin("gen", func(z, a, b *fr.Element) { fr.VerifAddGeneric(z, a, b) })
	case "sub":
		bin("asm", func(z, a, b *fr.Element) { z.Sub(a, b) })
		bin("gen", func(z, a, b *fr.Element) { fr.VerifSubGeneric(z, a, b) })
	case "mul":
		bin("asm", func(z, a, b *fr.Element) { z.Mul(a, b) })
		withNoAdx(func() { bin("noadx", func(z, a, b *fr.Element) { z.Mul(a, b) }) })
		bin("gen", func(z, a, b *fr.Element) { fr.VerifMulGeneric(z, a, b) })
	case "div":
		bin("asm", func(z, a, b *fr.Element) { z.Div(a, b) })
		withNoAdx(func() { bin("noadx", func(z, a, b *fr.Element) { z.Div(a, b) }) })
	case "butterfly":
		a, b := x, y
		fr.Butterfly(&a, &b)
		out["asm"] = [][]int{frRaw(&a), frRaw(&b)}
		a, b = x, y
		fr.VerifButterflyGeneric(&a, &b)
		out["gen"] = [][]int{frRaw(&a), frRaw(&b)}
	case "neg":
		un("asm", func(z, a *fr.Element) { z.Neg(a) })
		un("gen", func(z, a *fr.Element) { fr.VerifNegGeneric(z, a) })
	case "double":
		un("asm", func(z, a *fr.Element) { z.Double(a) })
		un("gen", func(z, a *fr.Element) { fr.VerifDoubleGeneric(z, a) })
	case "square":
		un("asm", func(z, a *fr.Element) { z.Square(a) })
		withNoAdx(func() { un("noadx", func(z, a *fr.Element) { z.Square(a) }) })
		un("gen", func(z, a *fr.Element) { fr.VerifMulGeneric(z, a, a) })
	case "inverse":
		un("asm", func(z, a *fr.Element) { z.Inverse(a) })
	case "mulby3":
		un("asm", func(z, a *fr.Element) { *z = *a; fr.MulBy3(z) })
		un("gen", func(z, a *fr.Element) { *z = *a; fr.VerifMulByConstant(z, 3) })
	case "mulby5":
		un("asm", func(z, a *fr.Element) { *z = *a; fr.MulBy5(z) })
		un("gen", func(z, a *fr.Element) { *z = *a; fr.VerifMulByConstant(z, 5) })
	case "mulby13":
		un("asm", func(z, a *fr.Element) { *z = *a; fr.MulBy13(z) })
		un("gen", func(z, a *fr.Element) { *z = *a; fr.VerifMulByConstant(z, 13) })
	case "frommont":
		un("asm", func(z, a *fr.Element) { *z = *a; z.FromMont() })
		withNoAdx(func() { un("noadx", func(z, a *fr.Element) { *z = *a; z.FromMont() }) })
		un("gen", func(z, a *fr.Element) { *z = *a; fr.VerifFromMontGeneric(z) })
	case "tomont":
		un("asm", func(z, a *fr.Element) { *z = *a; z.ToMont() })
	case "sqrt":
		var z fr.Element
		xc := x
		r := z.Sqrt(&xc)
		if r == nil {
			out["nil"] = true
		} else {
			out["asm"] = frRaw(r)
		}
		e["x_after"] = frRaw(&xc)
	case "legendre":
		xc := x
		e["int"] = xc.Legendre()
		e["x_after"] = frRaw(&xc)
	case "cmp":
		e["int"] = x.Cmp(&y)
	case "exp":
		ex := expExponent(c.E, d, k)
		var z fr.Element
		z.Exp(x, ex)
		out["asm"] = frRaw(&z)
		a := x
		a.Exp(a, ex)
		out["asm_zx"] = frRaw(&a)
		e["e"] = limbsOfBig(ex)
	case "batchinv":
		// vector: n elements derived from x,y and the pattern; zeros where the pattern says so
		n := c.N
		vec := make([]fr.Element, n)
		p := newPrg("batch", d.seed, k)
		for i := 0; i < n; i++ {
			switch {
			case c.Zp&(1<<uint(i%30)) != 0:
				// zero
			case i%3 == 0:
				vec[i] = x
			case i%3 == 1:
				vec[i] = y
			default:
				vec[i] = p.fr()
			}
		}
		in := make([][]int, n)
		for i := range vec {
			in[i] = frRaw(&vec[i])
		}
		before := append([]fr.Element(nil), vec...)
		res := fr.BatchInvert(vec)
		o := make([][]int, len(res))
		for i := range res {
			o[i] = frRaw(&res[i])
		}
		e["vec"] = in
		e["outvec"] = o
		same := true
		for i := range vec {
			if vec[i] != before[i] {
				same = false
			}
		}
		e["input_unchanged"] = same
	default:
		panic("unknown field op " + c.Op)
	}
	e["out"] = out
	w.emit(e)
}

// ---- scalar encodings (C16) ----

func codecValue(val string, d *driver, k int) *big.Int {
	return codecValueMod(val, d, k, modR)
}

// m: the modulus whose Montgomery form the "montz:" classes refer to (the value classes around r stay around r for both fields)
func codecValueMod(val string, d *driver, k int, m *big.Int) *big.Int {
	one := big.NewInt(1)
	r := modR
	if strings.HasPrefix(val, "montz:") && len(val) == 10 {
		return montZeroPattern(val[6:], m, newPrg("codec-montz", d.seed, k))
	}
	if strings.HasPrefix(val, "mont:") || strings.HasPrefix(val, "asmont:") {
		if v := montClass(val); v != nil {
			if m.Cmp(modR) != 0 { // the same stored words in the other field
				w := new(big.Int).Mod(new(big.Int).Mul(v, two256), modR)
				w.Mul(w, new(big.Int).ModInverse(two256, m))
				return w.Mod(w, m)
			}
			return v
		}
	}
	switch val {
	case "0":
		return big.NewInt(0)
	case "1":
		return one
	case "255":
		return big.NewInt(255)
	case "256":
		return big.NewInt(256)
	case "r-1":
		return new(big.Int).Sub(r, one)
	case "r":
		return new(big.Int).Set(r)
	case "r+1":
		return new(big.Int).Add(r, one)
	case "2r":
		return new(big.Int).Lsh(r, 1)
	case "p-1":
		return new(big.Int).Sub(modP, one)
	case "p":
		return new(big.Int).Set(modP)
	case "2^256-1":
		return new(big.Int).Sub(two256, one)
	case "2^255":
		return new(big.Int).Lsh(one, 255)
	case "hi_r", "hi_8r", "hi_3r": // lo + k*r*2^256 with lo < r: the part beyond 32 bytes is a multiple of r (64-byte inputs)
		kk := map[string]int64{"hi_r": 1, "hi_8r": 8, "hi_3r": 3}[val]
		lo := newPrg("codec", d.seed, k).big(250)
		hi := new(big.Int).Mul(r, big.NewInt(kk))
		return lo.Add(lo, hi.Lsh(hi, 256))
	case "2^63", "2^64-1", "2^64", "2^127", "2^128-1", "2^191", "2^192-1": // 64-bit limb boundaries and half-limb values
		e := map[string]uint{"2^63": 63, "2^64-1": 64, "2^64": 64, "2^127": 127, "2^128-1": 128, "2^191": 191, "2^192-1": 192}[val]
		v := new(big.Int).Lsh(one, e)
		if val[len(val)-2:] == "-1" {
			v.Sub(v, one)
		}
		return v
	case "h-1", "h", "h+1": // around (r-1)/2
		h := new(big.Int).Rsh(new(big.Int).Sub(r, one), 1)
		return h.Add(h, big.NewInt(int64(map[string]int{"h-1": -1, "h": 0, "h+1": 1}[val])))
	case "3r":
		return new(big.Int).Mul(r, big.NewInt(3))
	case "4r+1":
		return new(big.Int).Add(new(big.Int).Mul(r, big.NewInt(4)), one)
	case "5r-1":
		return new(big.Int).Sub(new(big.Int).Mul(r, big.NewInt(5)), one)
	case "8r":
		return new(big.Int).Mul(r, big.NewInt(8))
	case "8r-1":
		return new(big.Int).Sub(new(big.Int).Mul(r, big.NewInt(8)), one)
	case "r~64", "r~128", "r~192": // r with its low 64/128/192 bits replaced by random ones
		bits := map[string]uint{"r~64": 64, "r~128": 128, "r~192": 192}[val]
		hi := new(big.Int).Rsh(r, bits)
		hi.Lsh(hi, bits)
		low := new(big.Int).Rsh(newPrg("codec", d.seed, k).big(256), 256-bits)
		return hi.Add(hi, low)
	case "r+2^64", "r-2^64", "r+2^128", "r-2^128", "r+2^192", "r-2^192":
		sh := map[string]uint{"64": 64, "28": 128, "92": 192}[val[len(val)-2:]]
		dlt := new(big.Int).Lsh(one, sh)
		if val[1] == '-' {
			return new(big.Int).Sub(r, dlt)
		}
		return new(big.Int).Add(r, dlt)
	case "max": // all 0xff on the requested length
		return nil
	case "hi": // only the most significant byte set
		return nil
	case "lo": // only the least significant byte set
		return nil
	default:
		if strings.HasPrefix(val, "H:") && len(val) == 6 { // limb patterns around (r-1)/2
			return limbPattern(new(big.Int).Rsh(new(big.Int).Sub(r, one), 1), val[2:])
		}
		if strings.HasPrefix(val, "L:") && len(val) == 6 {
			v := new(big.Int)
			for i := 0; i < 4; i++ { // val[2] is the top limb
				limb := new(big.Int).Rsh(r, uint(64*(3-i)))
				limb.And(limb, new(big.Int).SetUint64(^uint64(0)))
				switch val[2+i] {
				case 'm':
					limb.Sub(limb, one)
				case 'p':
					limb.Add(limb, one)
				}
				v.Lsh(v, 64)
				v.Add(v, limb)
			}
			return v
		}
		return newPrg("codec", d.seed, k).big(520)
	}
}

// byte string of exactly n bytes in the byte order of fn's input
func codecBytes(c *fieldCase, d *driver, k int, littleEndian bool) []byte {
	n := c.Len
	buf := make([]byte, n)
	switch c.Val {
	case "max":
		for i := range buf {
			buf[i] = 0xff
		}
		return buf
	case "hi", "lo":
		if n > 0 {
			msb := (c.Val == "hi")
			idx := 0
			if msb == littleEndian {
				idx = n - 1
			}
			buf[idx] = 0x80
		}
		return buf
	}
	v := codecValue(c.Val, d, k)
	// value truncated to n bytes
	m := new(big.Int).Lsh(big.NewInt(1), uint(8*n))
	v.Mod(v, m)
	be := v.FillBytes(make([]byte, n))
	if littleEndian {
		for i, j := 0, n-1; i < j; i, j = i+1, j-1 {
			be[i], be[j] = be[j], be[i]
		}
	}
	return be
}

type chunkReader struct {
	data []byte
	step int
}

func (r *chunkReader) Read(p []byte) (int, error) {
	if len(r.data) == 0 {
		return 0, errEOF
	}
	n := r.step
	if n > len(p) {
		n = len(p)
	}
	if n > len(r.data) {
		n = len(r.data)
	}
	copy(p, r.data[:n])
	r.data = r.data[n:]
	return n, nil
}

func (d *driver) runCodecCase(w emitter, k int, c *fieldCase) {
	e := ev{"ev": "codec", "k": k, "fn": c.Fn, "val": c.Val}
	switch c.Fn {
	case "SetBytes", "SetBytesLE", "SetBytesLECanonical", "ReadScalar":
		le := c.Fn != "SetBytes"
		buf := codecBytes(c, d, k, le)
		before := append([]byte(nil), buf...)
		e["buf"] = bytesToInts(before)
		var z fr.Element
		// first decode
		var err error
		used := false
		dec := func(b []byte) (*fr.Element, error) {
			var zz fr.Element
			if used { // a receiver that holds another value from an earlier use
				zz = frFromBig(new(big.Int).Sub(modR, big.NewInt(12345)))
			}
			switch c.Fn {
			case "SetBytes":
				zz.SetBytes(b)
				return &zz, nil
			case "SetBytesLE":
				zz.SetBytesLE(b)
				return &zz, nil
			case "SetBytesLECanonical":
				r, err := zz.SetBytesLECanonical(b)
				if err != nil {
					return nil, err
				}
				return r, nil
			default:
				return common.ReadScalar(&chunkReader{data: append([]byte(nil), b...), step: 7})
			}
		}
		var r1 *fr.Element
		r1, err = dec(buf)
		e["buf_after"] = bytesToInts(buf)
		if err != nil {
			e["err"] = true
		} else {
			z = *r1
			e["err"] = false
			e["out"] = frReg(&z)
			e["out_raw"] = frRaw(&z)
		}
		// second decode of the very same buffer
		r2, err2 := dec(buf)
		if err2 != nil {
			e["err2"] = true
		} else {
			e["err2"] = false
			e["out2"] = frReg(r2)
		}
		// third decode, into a receiver that already holds a value
		used = true
		r3, err3 := dec(buf)
		if err3 != nil {
			e["err3"] = true
		} else {
			e["err3"] = false
			e["out3"] = frReg(r3)
		}
		_ = bytes.Equal
	case "Bytes", "BytesLE", "fpBytesLE", "fpBytes":
		// encode a scalar, then decode it back with the matching decoder
		v := codecValue(c.Val, d, k)
		if c.Fn == "fpBytesLE" || c.Fn == "fpBytes" {
			v = codecValueMod(c.Val, d, k, modP)
		}
		if v == nil {
			v = new(big.Int).Sub(two256, big.NewInt(1))
		}
		if c.Fn == "fpBytesLE" || c.Fn == "fpBytes" {
			x := fpFromBig(v)
			e["x"] = fpReg(&x)
			e["x_raw"] = fpRaw(&x)
			if c.Fn == "fpBytesLE" {
				e["bytes"] = bytesToInts(fp.BytesLE(x))
			} else {
				b := x.Bytes()
				e["bytes"] = bytesToInts(b[:])
			}
		} else {
			x := frFromBig(v)
			e["x"] = frReg(&x)
			e["x_raw"] = frRaw(&x)
			var b [32]byte
			if c.Fn == "Bytes" {
				b = x.Bytes()
			} else {
				b = x.BytesLE()
			}
			e["bytes"] = bytesToInts(b[:])
			var back fr.Element
			cp := append([]byte(nil), b[:]...)
			if c.Fn == "Bytes" {
				back.SetBytes(cp)
			} else {
				back.SetBytesLE(cp)
			}
			e["back"] = frReg(&back)
		}
	default:
		panic("unknown codec fn " + c.Fn)
	}
	w.emit(e)
}
