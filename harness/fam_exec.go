package main

import (
	"runtime"
	"sort"
	"sync"
	"sync/atomic"
	"time"

	"github.com/crate-crypto/go-ipa/common/parallel"
)

// ---- family "exec": the parallel range splitter (C20) ----

type execCase struct {
	Nlo     int  `json:"nlo"`
	Nhi     int  `json:"nhi"`
	Mlo     int  `json:"mlo"`
	Mhi     int  `json:"mhi"`
	Default bool `json:"default"` // call without a worker limit (uses runtime.NumCPU)
	Delay   int  `json:"delay"`   // 0 none, 1 yields, 2 yields and short sleeps
}

func (d *driver) runExecCase(w emitter, k int, c *execCase) {
	rnd := newPrg("exec", d.seed, k)
	for n := c.Nlo; n <= c.Nhi; n++ {
		for m := c.Mlo; m <= c.Mhi; m++ {
			var mu sync.Mutex
			type rg struct{ s, e int }
			var got []rg
			var finished int64
			delays := make([]int, 0, 8)
			for i := 0; i < 8; i++ {
				delays = append(delays, rnd.intn(4))
			}
			var started int64
			work := func(s, e int) {
				idx := atomic.AddInt64(&started, 1)
				if c.Delay >= 1 {
					for j := 0; j < delays[int(idx)%8]; j++ {
						runtime.Gosched()
					}
				}
				if c.Delay >= 2 && delays[int(idx)%8] == 3 {
					time.Sleep(time.Duration(50+10*delays[int(idx+1)%8]) * time.Microsecond)
				}
				mu.Lock()
				got = append(got, rg{s, e})
				mu.Unlock()
				atomic.AddInt64(&finished, 1)
			}
			limit := m
			if c.Default {
				parallel.Execute(n, work)
				limit = runtime.NumCPU()
			} else {
				parallel.Execute(n, work, m)
			}
			// snapshot at the moment Execute returned
			doneAtReturn := atomic.LoadInt64(&finished)
			mu.Lock()
			snap := append([]rg(nil), got...)
			mu.Unlock()
			// give stragglers (if any) a moment, to count invocations that were still running at return
			time.Sleep(0)
			sort.Slice(snap, func(i, j int) bool { return snap[i].s < snap[j].s || (snap[i].s == snap[j].s && snap[i].e < snap[j].e) })
			starts := make([]int, len(snap))
			ends := make([]int, len(snap))
			for i, r := range snap {
				starts[i], ends[i] = r.s, r.e
			}
			w.emit(ev{"ev": "exec", "k": k, "n": n, "m": limit, "default": c.Default, "starts": starts, "ends": ends,
				"done_at_return": int(doneAtReturn), "started_at_return": int(atomic.LoadInt64(&started))})
		}
	}
}
