package main

import (
	"runtime"
	"sort"
	"sync"
	"sync/atomic"
	"time"

	"github.com/crate-crypto/go-ipa/common/parallel"
)

// ---- family "exec": the parallel range splitter (C20) ----

type execCase struct {
	Nlo     int  `json:"nlo"`
	Nhi     int  `json:"nhi"`
	Mlo     int  `json:"mlo"`
	Mhi     int  `json:"mhi"`
	Default bool `json:"default"` // call without a worker limit (uses runtime.NumCPU)
	Delay   int  `json:"delay"`   // 0 none, 1 yields, 2 yields and short sleeps
	Conc    int  `json:"conc"`    // > 0: this many goroutines call Execute at the same time (each call is one event)
	Nest    int  `json:"nest"`    // > 0: the work function calls Execute again, this deep (each level is one event)
}

// one call Execute(n, work[, m]) observed from inside the work function; `inner`, when set, is run by the first invocation
func execObserved(k, n, m int, deflt bool, delay int, rnd *prg, inner func()) ev {
	var mu sync.Mutex
	type rg struct{ s, e int }
	var got []rg
	var finished, started int64
	delays := make([]int, 0, 8)
	for i := 0; i < 8; i++ {
		delays = append(delays, rnd.intn(4))
	}
	work := func(s, e int) {
		idx := atomic.AddInt64(&started, 1)
		if delay >= 1 {
			for j := 0; j < delays[int(idx)%8]; j++ {
				runtime.Gosched()
			}
		}
		if delay >= 2 && delays[int(idx)%8] == 3 {
			time.Sleep(time.Duration(50+10*delays[int(idx+1)%8]) * time.Microsecond)
		}
		if inner != nil && idx == 1 {
			inner()
		}
		mu.Lock()
		got = append(got, rg{s, e})
		mu.Unlock()
		atomic.AddInt64(&finished, 1)
	}
	limit := m
	if deflt {
		parallel.Execute(n, work)
		limit = runtime.NumCPU()
	} else {
		parallel.Execute(n, work, m)
	}
	doneAtReturn := atomic.LoadInt64(&finished)
	mu.Lock()
	snap := append([]rg(nil), got...)
	mu.Unlock()
	sort.Slice(snap, func(i, j int) bool { return snap[i].s < snap[j].s || (snap[i].s == snap[j].s && snap[i].e < snap[j].e) })
	starts := make([]int, len(snap))
	ends := make([]int, len(snap))
	for i, r := range snap {
		starts[i], ends[i] = r.s, r.e
	}
	return ev{"ev": "exec", "k": k, "n": n, "m": limit, "default": deflt, "starts": starts, "ends": ends,
		"done_at_return": int(doneAtReturn), "started_at_return": int(atomic.LoadInt64(&started))}
}

func (d *driver) runExecCase(w emitter, k int, c *execCase) {
	rnd := newPrg("exec", d.seed, k)
	if c.Conc > 0 {
		// many callers at once (more than there are CPUs): every call must still be a complete split
		for n := c.Nlo; n <= c.Nhi; n++ {
			evs := make([]ev, c.Conc)
			var start, done sync.WaitGroup
			start.Add(1)
			done.Add(c.Conc)
			for g := 0; g < c.Conc; g++ {
				r := newPrg("exec-conc", d.seed, k, n, g)
				go func(g int) {
					defer done.Done()
					start.Wait()
					evs[g] = execObserved(k, n+g%3, c.Mlo, c.Default, c.Delay, r, nil)
				}(g)
			}
			start.Done()
			done.Wait()
			for _, e := range evs {
				e["conc"] = c.Conc
				w.emit(e)
			}
		}
		return
	}
	if c.Nest > 0 {
		// re-entrancy: the first invocation of each level calls Execute again
		for n := c.Nlo; n <= c.Nhi; n++ {
			var evs []ev
			var mu sync.Mutex
			var level func(depth int) func()
			level = func(depth int) func() {
				if depth > c.Nest {
					return nil
				}
				return func() {
					e := execObserved(k, n+depth, c.Mlo, c.Default, 0, newPrg("exec-nest", d.seed, k, n, depth), level(depth+1))
					e["nest"] = depth
					mu.Lock()
					evs = append(evs, e)
					mu.Unlock()
				}
			}
			level(0)()
			for _, e := range evs {
				w.emit(e)
			}
		}
		return
	}
	for n := c.Nlo; n <= c.Nhi; n++ {
		for m := c.Mlo; m <= c.Mhi; m++ {
			var mu sync.Mutex
			type rg struct{ s, e int }
			var got []rg
			var finished int64
			delays := make([]int, 0, 8)
			for i := 0; i < 8; i++ {
				delays = append(delays, rnd.intn(4))
			}
			var started int64
			work := func(s, e int) {
				idx := atomic.AddInt64(&started, 1)
				if c.Delay >= 1 {
					for j := 0; j < delays[int(idx)%8]; j++ {
						runtime.Gosched()
					}
				}
				if c.Delay >= 2 && delays[int(idx)%8] == 3 {
					time.Sleep(time.Duration(50+10*delays[int(idx+1)%8]) * time.Microsecond)
				}
				mu.Lock()
				got = append(got, rg{s, e})
				mu.Unlock()
				atomic.AddInt64(&finished, 1)
			}
			limit := m
			if c.Default {
				parallel.Execute(n, work)
				limit = runtime.NumCPU()
			} else {
				parallel.Execute(n, work, m)
			}
			// snapshot at the moment Execute returned
			doneAtReturn := atomic.LoadInt64(&finished)
			mu.Lock()
			snap := append([]rg(nil), got...)
			mu.Unlock()
			// give stragglers (if any) a moment, to count invocations that were still running at return
			time.Sleep(0)
			sort.Slice(snap, func(i, j int) bool { return snap[i].s < snap[j].s || (snap[i].s == snap[j].s && snap[i].e < snap[j].e) })
			starts := make([]int, len(snap))
			ends := make([]int, len(snap))
			for i, r := range snap {
				starts[i], ends[i] = r.s, r.e
			}
			w.emit(ev{"ev": "exec", "k": k, "n": n, "m": limit, "default": c.Default, "starts": starts, "ends": ends,
				"done_at_return": int(doneAtReturn), "started_at_return": int(atomic.LoadInt64(&started))})
		}
	}
}
