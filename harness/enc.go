package main

import (
	"bufio"
	"crypto/sha256"
	"encoding/binary"
	"encoding/json"
	"math/big"
	"os"
	"sync"
	"time"

	gfr "github.com/consensys/gnark-crypto/ecc/bls12-381/fr"
	"github.com/crate-crypto/go-ipa/bandersnatch/fp"
	"github.com/crate-crypto/go-ipa/bandersnatch/fr"
	"github.com/crate-crypto/go-ipa/banderwagon"
)

// ---- numbers as little-endian 28-bit limb arrays (the BigNat representation of the spec) ----

const limbBits = 28

var limbMask = big.NewInt((1 << limbBits) - 1)

func limbsOfBig(b *big.Int) []int {
	out := []int{}
	x := new(big.Int).Set(b)
	t := new(big.Int)
	for x.Sign() > 0 {
		out = append(out, int(t.And(x, limbMask).Int64()))
		x.Rsh(x, limbBits)
	}
	return out
}

func bigOfLimbs(l []int) *big.Int {
	x := new(big.Int)
	for i := len(l) - 1; i >= 0; i-- {
		x.Lsh(x, limbBits)
		x.Or(x, big.NewInt(int64(l[i])))
	}
	return x
}

// raw integer value of the four 64-bit words (whatever they mean)
func rawBig(w [4]uint64) *big.Int {
	x := new(big.Int)
	for i := 3; i >= 0; i-- {
		x.Lsh(x, 64)
		x.Or(x, new(big.Int).SetUint64(w[i]))
	}
	return x
}

func wordsOfBig(b *big.Int) [4]uint64 {
	var w [4]uint64
	x := new(big.Int).Set(b)
	m := new(big.Int).SetUint64(^uint64(0))
	t := new(big.Int)
	for i := 0; i < 4; i++ {
		w[i] = t.And(x, m).Uint64()
		x.Rsh(x, 64)
	}
	return w
}

func frRaw(e *fr.Element) []int { return limbsOfBig(rawBig([4]uint64(*e))) }
func fpRaw(e *fp.Element) []int { return limbsOfBig(rawBig([4]uint64(*e))) }

// regular (non-Montgomery) value
func frReg(e *fr.Element) []int {
	var b big.Int
	e.ToBigIntRegular(&b)
	return limbsOfBig(&b)
}
func fpReg(e *fp.Element) []int {
	var b big.Int
	e.BigInt(&b)
	return limbsOfBig(&b)
}

var (
	modR   = fr.Modulus()
	modP   = gfr.Modulus()
	two256 = new(big.Int).Lsh(big.NewInt(1), 256)
)

// build field elements from a regular value without going through the library's decoders:
// raw = v * 2^256 mod m, written straight into the words
func frFromBig(b *big.Int) fr.Element {
	x := new(big.Int).Mod(b, modR)
	x.Mul(x, two256).Mod(x, modR)
	return fr.Element(wordsOfBig(x))
}
func fpFromBig(b *big.Int) fp.Element {
	x := new(big.Int).Mod(b, modP)
	x.Mul(x, two256).Mod(x, modP)
	return fp.Element(wordsOfBig(x))
}
func frFromRaw(b *big.Int) fr.Element { return fr.Element(wordsOfBig(new(big.Int).Mod(b, modR))) }

func bytesToInts(b []byte) []int {
	out := make([]int, len(b))
	for i, x := range b {
		out[i] = int(x)
	}
	return out
}
func intsToBytes(a []int) []byte {
	out := make([]byte, len(a))
	for i, x := range a {
		out[i] = byte(x)
	}
	return out
}

// projective coordinates (regular values) of an element, read through the hook
func coords(e *banderwagon.Element) [][]int {
	x, y, z := banderwagon.VerifCoords(e)
	return [][]int{fpReg(&x), fpReg(&y), fpReg(&z)}
}

// ---- deterministic pseudo-random stream (SHA-256 counter mode), mirrored by the spec where needed ----

type prg struct {
	seed []byte
	ctr  uint64
	buf  []byte
}

func newPrg(parts ...interface{}) *prg {
	h := sha256.New()
	for _, p := range parts {
		switch v := p.(type) {
		case string:
			h.Write([]byte(v))
		case int:
			var b [8]byte
			binary.BigEndian.PutUint64(b[:], uint64(v))
			h.Write(b[:])
		case []byte:
			h.Write(v)
		}
		h.Write([]byte{0xff})
	}
	return &prg{seed: h.Sum(nil)}
}
func (p *prg) bytes(n int) []byte {
	for len(p.buf) < n {
		h := sha256.New()
		h.Write(p.seed)
		var b [8]byte
		binary.BigEndian.PutUint64(b[:], p.ctr)
		p.ctr++
		h.Write(b[:])
		p.buf = append(p.buf, h.Sum(nil)...)
	}
	out := p.buf[:n]
	p.buf = p.buf[n:]
	return append([]byte(nil), out...)
}
func (p *prg) intn(n int) int {
	b := p.bytes(8)
	return int(binary.BigEndian.Uint64(b) % uint64(n))
}
func (p *prg) big(bits int) *big.Int {
	b := p.bytes((bits + 7) / 8)
	x := new(big.Int).SetBytes(b)
	return x.Rsh(x, uint(len(b)*8-bits))
}
func (p *prg) fr() fr.Element {
	x := p.big(320)
	x.Mod(x, fr.Modulus())
	return frFromBig(x)
}

// ---- NDJSON trace writer ----

type ev map[string]interface{}

type traceWriter struct {
	mu sync.Mutex
	f  *os.File
	w  *bufio.Writer
	n  int
}

func newTraceWriter(path string) *traceWriter {
	f, err := os.Create(path)
	if err != nil {
		panic(err)
	}
	return &traceWriter{f: f, w: bufio.NewWriterSize(f, 1<<20)}
}
func (t *traceWriter) emit(e ev) {
	b, err := json.Marshal(e)
	if err != nil {
		panic(err)
	}
	t.mu.Lock()
	t.w.Write(b)
	t.w.WriteByte('\n')
	t.n++
	t.mu.Unlock()
}
func (t *traceWriter) close() {
	t.w.Flush()
	t.f.Close()
}

// sharded writers: events of one program always go to the same shard
type shards struct {
	ws []*traceWriter
}

func newShards(prefix string, n int) *shards {
	s := &shards{}
	for i := 0; i < n; i++ {
		s.ws = append(s.ws, newTraceWriter(prefix+"."+itoa(i)+".ndjson"))
	}
	return s
}
func (s *shards) at(i int) *traceWriter { return s.ws[i%len(s.ws)] }
func (s *shards) close() {
	for _, w := range s.ws {
		w.close()
	}
}
func (s *shards) total() int {
	n := 0
	for _, w := range s.ws {
		n += w.n
	}
	return n
}

func itoa(i int) string { return big.NewInt(int64(i)).String() }

// emitter abstracts over a single shard and round-robin distribution
type emitter interface{ emit(e ev) }

type roundRobin struct {
	sh *shards
	i  int
}

func (r *roundRobin) emit(e ev) {
	r.sh.ws[r.i%len(r.sh.ws)].emit(e)
	r.i++
}

// ---- spare-capacity guards: a slice handed to the library is the front part of a larger array whose tail holds sentinels;
//      after the call the tail must be intact (nothing may be appended into a caller's spare capacity) ----

// mustReturn runs f; if f has not returned after 180 s (alone, the slowest call of these families takes about a second) the driver
// dies with a panic naming the call: the runner isolates the program, requires the stall to reproduce when the program is run alone
// and hands it to Trace_Crash - the specification has no action for a call that never returns.
func mustReturn(what string, f func()) {
	t := time.AfterFunc(180*time.Second, func() {
		panic("verif: " + what + " did not return within 180 s (the call blocks)")
	})
	defer t.Stop()
	f()
}

type tailGuard struct{ checks []func() bool }

func (g *tailGuard) ok() bool {
	for _, c := range g.checks {
		if !c() {
			return false
		}
	}
	return true
}

func guardSlice[T comparable](g *tailGuard, s []T, fill T) []T {
	// the spare capacity must be large enough for whatever the callee might append (another operand, a 32-byte encoding, a whole vector):
	// with too small a tail `append` reallocates and the sentinels never see the write
	extra := len(s) + 320
	arr := make([]T, len(s)+extra)
	copy(arr, s)
	for i := len(s); i < len(arr); i++ {
		arr[i] = fill
	}
	n := len(s)
	g.checks = append(g.checks, func() bool {
		for i := n; i < len(arr); i++ {
			if arr[i] != fill {
				return false
			}
		}
		return true
	})
	return arr[:n]
}

// limbPattern returns the value whose four 64-bit limbs (from the top) are those of c minus one / equal / plus one according to pat ("m", "e", "p")
func limbPattern(c *big.Int, pat string) *big.Int {
	v := new(big.Int)
	mask := new(big.Int).SetUint64(^uint64(0))
	for i := 0; i < 4; i++ {
		limb := new(big.Int).Rsh(c, uint(64*(3-i)))
		limb.And(limb, mask)
		switch pat[i] {
		case 'm':
			if limb.Sign() > 0 {
				limb.Sub(limb, big.NewInt(1))
			}
		case 'p':
			if limb.Cmp(mask) < 0 {
				limb.Add(limb, big.NewInt(1))
			}
		}
		v.Lsh(v, 64)
		v.Add(v, limb)
	}
	return v
}

// pattern number k in base 3 over the four limbs (top first)
func patOf(k int) string {
	d := "mep"
	k %= 81
	return string([]byte{d[k/27], d[(k/9)%3], d[(k/3)%3], d[k%3]})
}

// montWords returns the canonical value of the scalar whose stored (Montgomery) words, as an integer, are w: w * 2^-256 mod r.
// "Small" for code that looks at the stored words (IsUint64, Bit, word 0) is a different class from small canonical values.
func montWords(w *big.Int) *big.Int {
	rinv := new(big.Int).ModInverse(two256, modR)
	v := new(big.Int).Mul(new(big.Int).Mod(w, modR), rinv)
	return v.Mod(v, modR)
}

// limbRelatives: values that a cheap digest of the 64-bit limbs (xor, sum, one limb, a permutation-invariant mix) cannot tell from
// base, although they differ from it.  All limbs stay below 2^61 so that every relative is below both moduli.  Limb 0 is the least
// significant.  Used for histories "x, then a relative of x": whatever a call remembers about x must not answer for the relative.
func limbRelatives(base [4]uint64, p *prg) (names []string, out [][4]uint64) {
	add := func(n string, v [4]uint64) {
		if v != base {
			names = append(names, n)
			out = append(out, v)
		}
	}
	a, b, c, d := base[0], base[1], base[2], base[3]
	t := (p.big(60).Uint64() | 1) & (1<<60 - 1)
	add("swap01", [4]uint64{b, a, c, d})
	add("swap23", [4]uint64{a, b, d, c})
	add("reverse", [4]uint64{d, c, b, a})
	add("rotate", [4]uint64{b, c, d, a})
	add("xor01", [4]uint64{a ^ t, b ^ t, c, d})
	add("xor02", [4]uint64{a ^ t, b, c ^ t, d})
	add("xor13", [4]uint64{a, b ^ t, c, d ^ t})
	add("sum01", [4]uint64{a + b/2, b - b/2, c, d})
	add("sum23", [4]uint64{a, b, c + d/2, d - d/2})
	for i := 0; i < 4; i++ { // equal in limb i only / different in limb i only
		var only, but [4]uint64
		for j := 0; j < 4; j++ {
			only[j] = p.big(60).Uint64()
			but[j] = base[j]
		}
		only[i] = base[i]
		but[i] = base[i] ^ t
		add("onlylimb"+string(rune('0'+i)), only)
		add("butlimb"+string(rune('0'+i)), but)
	}
	return
}

// relatives of ZERO under the same digests: limbs that cancel
func zeroRelatives(p *prg) (names []string, out [][4]uint64) {
	k := p.big(60).Uint64() | 1
	names = []string{"kk00", "k0k0", "kkkk", "00kk", "k00k"}
	out = [][4]uint64{{k, k, 0, 0}, {k, 0, k, 0}, {k, k, k, k}, {0, 0, k, k}, {k, 0, 0, k}}
	return
}

func bigOfWords(l [4]uint64) *big.Int {
	v := new(big.Int)
	for i := 3; i >= 0; i-- {
		v.Lsh(v, 64)
		v.Add(v, new(big.Int).SetUint64(l[i]))
	}
	return v
}

// montZeroPattern: the canonical value (mod m) whose stored (Montgomery) limbs follow pat, most significant limb first:
// '0' a zero limb, 'x' a random non-zero limb (top limb kept below the modulus' top limb).  All 16 patterns: every way for code
// that inspects stored limbs ("fits one word", "upper half is zero") to be misled.
func montZeroPattern(pat string, m *big.Int, p *prg) *big.Int {
	w := new(big.Int)
	for i := 0; i < 4; i++ {
		w.Lsh(w, 64)
		if pat[i] == 'x' {
			l := p.big(64).Uint64() | 1
			if i == 0 {
				l = l>>4 | 1 // below the top limb of r and p (0x1cfb.., 0x73ed..)
			}
			w.Add(w, new(big.Int).SetUint64(l))
		}
	}
	rinv := new(big.Int).ModInverse(two256, m)
	v := new(big.Int).Mul(new(big.Int).Mod(w, m), rinv)
	return v.Mod(v, m)
}

// named classes "mont:<k>" with k in {1, 5, 255, 2^63, 2^64-1, 2^64, 2^128}
func montClass(name string) *big.Int {
	one := big.NewInt(1)
	switch name {
	case "mont:1":
		return montWords(one)
	case "mont:5":
		return montWords(big.NewInt(5))
	case "mont:255":
		return montWords(big.NewInt(255))
	case "mont:2^63":
		return montWords(new(big.Int).Lsh(one, 63))
	case "mont:2^64-1":
		return montWords(new(big.Int).Sub(new(big.Int).Lsh(one, 64), one))
	case "mont:2^64":
		return montWords(new(big.Int).Lsh(one, 64))
	case "mont:2^128":
		return montWords(new(big.Int).Lsh(one, 128))
	// the other way round: the canonical value whose digits are those of the Montgomery form of k (k * 2^256 mod r)
	case "asmont:1":
		return new(big.Int).Mod(two256, modR)
	case "asmont:2":
		return new(big.Int).Mod(new(big.Int).Lsh(two256, 1), modR)
	case "asmont:-1":
		return new(big.Int).Sub(modR, new(big.Int).Mod(two256, modR))
	case "asmont:R":
		return new(big.Int).Mod(new(big.Int).Mul(two256, two256), modR)
	}
	return nil
}
