package main

import (
	"encoding/json"
	"io"

	"github.com/crate-crypto/go-ipa/ipa"
)

// configEvent: the shared configuration as seen through the hooks (SRS as raw projective coordinates, Q)
func configEvent(cfg *ipa.IPAConfig) ev {
	srs := make([][][]int, len(cfg.SRS))
	for i := range cfg.SRS {
		srs[i] = coords(&cfg.SRS[i])
	}
	return ev{"ev": "config", "srs": srs, "q": coords(&cfg.Q)}
}

func ioEOF() error { return io.EOF }

func (d *driver) runOtherFamily(fam, in string, sh *shards) bool {
	switch fam {
	case "transcript":
		getConf()
		forEachLine(in, len(sh.ws), func(shard, k int, line []byte) {
			d.runTranscriptProgram(sh.at(shard), k, line)
		})
		return true
	case "conc":
		getConf()
		forEachLine(in, 1, func(shard, k int, line []byte) {
			d.runConcProgram(sh.at(k), k, line)
		})
		return true
	case "purity":
		getConf()
		forEachLine(in, 1, func(shard, k int, line []byte) {
			d.runPurityProgram(sh.at(k), k, line)
		})
		return true
	case "proof":
		cfg := getConf()
		first := make([]bool, len(sh.ws))
		forEachLine(in, len(sh.ws), func(shard, k int, line []byte) {
			if !first[shard] {
				first[shard] = true
				sh.at(shard).emit(configEvent(cfg))
			}
			d.runProofProgram(sh.at(shard), k, line)
		})
		return true
	case "msm":
		getConf()
		rr := &roundRobin{sh: sh}
		forEachLine(in, 1, func(shard, k int, line []byte) {
			var c msmCase
			if err := json.Unmarshal(line, &c); err != nil {
				panic(err)
			}
			d.runMsmCase(rr, k, &c)
		})
		return true
	case "commit":
		cfg := getConf()
		for _, tw := range sh.ws {
			tw.emit(configEvent(cfg))
		}
		rr := &roundRobin{sh: sh}
		forEachLine(in, 1, func(shard, k int, line []byte) {
			var c commitCase
			if err := json.Unmarshal(line, &c); err != nil {
				panic(err)
			}
			d.runCommitCase(rr, k, &c)
		})
		return true
	case "poly":
		getConf()
		rr := &roundRobin{sh: sh}
		forEachLine(in, 1, func(shard, k int, line []byte) {
			var c polyCase
			if err := json.Unmarshal(line, &c); err != nil {
				panic(err)
			}
			d.runPolyCase(rr, k, &c)
		})
		return true
	case "misc":
		getConf()
		rr := &roundRobin{sh: sh}
		forEachLine(in, 1, func(shard, k int, line []byte) {
			var c miscCase
			if err := json.Unmarshal(line, &c); err != nil {
				panic(err)
			}
			d.runMiscCase(rr, k, &c)
		})
		return true
	case "sqrt":
		rr := &roundRobin{sh: sh}
		forEachLine(in, 1, func(shard, k int, line []byte) {
			var c sqrtCase
			if err := json.Unmarshal(line, &c); err != nil {
				panic(err)
			}
			d.runSqrtCase(rr, k, &c)
		})
		return true
	case "exec":
		rr := &roundRobin{sh: sh}
		forEachLine(in, 1, func(shard, k int, line []byte) {
			var c execCase
			if err := json.Unmarshal(line, &c); err != nil {
				panic(err)
			}
			d.runExecCase(rr, k, &c)
		})
		return true
	case "decode":
		rr := &roundRobin{sh: sh}
		forEachLine(in, 1, func(shard, k int, line []byte) {
			var c decCase
			if err := json.Unmarshal(line, &c); err != nil {
				panic(err)
			}
			d.runDecodeCase(rr, k, &c)
		})
		return true
	case "group":
		// one program per line; all events of a program go to one shard, shards run concurrently
		cfg := getConf()
		first := make([]bool, len(sh.ws))
		forEachLine(in, len(sh.ws), func(shard, k int, line []byte) {
			if !first[shard] {
				first[shard] = true
				sh.at(shard).emit(configEvent(cfg))
			}
			d.runGroupProgram(sh.at(shard), k, line)
		})
		return true
	}
	return false
}
