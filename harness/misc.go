package main

import "io"

func ioEOF() error { return io.EOF }

func (d *driver) runOtherFamily(fam, in string, sh *shards) bool { return false }
