package main

import (
	"math/big"
	"strconv"
	"strings"

	"github.com/crate-crypto/go-ipa/bandersnatch/fr"
	"github.com/crate-crypto/go-ipa/ipa"
)

// ---- family "poly": division on the domain, barycentric coefficients, weight tables (C18) ----

type polyCase struct {
	Kind string `json:"kind"` // divide | bary | tables
	F    string `json:"f"`    // polynomial class
	J    int    `json:"j"`    // parameter of the class (unit index, seed)
	K    []int  `json:"k"`    // domain indices for divide
	Z    string `json:"z"`    // point class for bary
	Full bool   `json:"full"` // ask the specification for the expensive table-free characterisation as well
}

// evaluation-form polynomial of a class
func polyClass(name string, j int, p *prg) []fr.Element {
	f := make([]fr.Element, 256)
	one := big.NewInt(1)
	switch name {
	case "zero":
	case "const":
		c := frFromBig(big.NewInt(int64(7 + j)))
		for i := range f {
			f[i] = c
		}
	case "unit":
		f[j%256] = frFromBig(one)
	case "unitmax":
		f[j%256] = frFromBig(new(big.Int).Sub(modR, one))
	case "max":
		m := frFromBig(new(big.Int).Sub(modR, one))
		for i := range f {
			f[i] = m
		}
	case "x255": // the monomial X^255 in evaluation form
		for i := range f {
			v := new(big.Int).Exp(big.NewInt(int64(i)), big.NewInt(255), modR)
			f[i] = frFromBig(v)
		}
	case "linear":
		for i := range f {
			f[i] = frFromBig(big.NewInt(int64(3*i + j)))
		}
	case "sparse":
		for t := 0; t < 5; t++ {
			f[p.intn(256)] = p.fr()
		}
	case "small":
		for i := range f {
			f[i] = frFromBig(big.NewInt(int64(p.intn(1000))))
		}
	case "bithi", "bitlo": // non-zero exactly where bit j of the index is set / clear: an all-zero half in folding round 7-j
		for i := range f {
			if ((i>>uint(j%8))&1 == 1) == (name == "bithi") {
				f[i] = p.fr()
			}
		}
	case "montsmall": // every entry has SMALL stored (Montgomery) words: entry i is (i + j + 1) * 2^-256 mod r; one entry is a full 64-bit word
		for i := range f {
			f[i] = frFromBig(montWords(big.NewInt(int64(i + j + 1))))
		}
		f[200] = frFromBig(montWords(new(big.Int).SetUint64(^uint64(0))))
	case "linear3":
		for i := range f {
			f[i] = frFromBig(big.NewInt(int64(3*i + 1)))
		}
	default:
		for i := range f {
			f[i] = p.fr()
		}
	}
	return f
}

func vecReg(v []fr.Element) [][]int {
	out := make([][]int, len(v))
	for i := range v {
		out[i] = frReg(&v[i])
	}
	return out
}

func pointValue(name string, p *prg) *big.Int {
	one := big.NewInt(1)
	switch name {
	case "256":
		return big.NewInt(256)
	case "257":
		return big.NewInt(257)
	case "2^64":
		return new(big.Int).Lsh(one, 64)
	case "r-1":
		return new(big.Int).Sub(modR, one)
	case "r-2":
		return new(big.Int).Sub(modR, big.NewInt(2))
	case "h":
		return new(big.Int).Rsh(modR, 1)
	default:
		if v := montClass(name); v != nil {
			return v
		}
		if n, ok := new(big.Int).SetString(name, 10); ok {
			return n
		}
		// limb-structured values "2^192+5", "3*2^128+255": a small (in-domain looking) low limb under a set high limb, where a
		// shortcut that inspects only some of the limbs decides wrongly
		if strings.Contains(name, "+") || strings.Contains(name, "*") {
			sum := new(big.Int)
			ok := true
			for _, term := range strings.Split(name, "+") {
				coef := big.NewInt(1)
				if i := strings.Index(term, "*"); i >= 0 {
					if _, ok2 := coef.SetString(term[:i], 10); !ok2 {
						ok = false
					}
					term = term[i+1:]
				}
				v := new(big.Int)
				if strings.HasPrefix(term, "2^") {
					e, err := strconv.Atoi(term[2:])
					if err != nil {
						ok = false
					}
					v.Lsh(one, uint(e))
				} else if _, ok2 := v.SetString(term, 10); !ok2 {
					ok = false
				}
				sum.Add(sum, v.Mul(v, coef))
			}
			if ok {
				return sum.Mod(sum, modR)
			}
		}
		x := p.big(300)
		x.Mod(x, modR)
		if x.Cmp(big.NewInt(256)) < 0 {
			x.Add(x, big.NewInt(256))
		}
		return x
	}
}

func (d *driver) runPolyCase(w emitter, k int, c *polyCase) {
	cfg := getConf()
	p := newPrg("poly", d.seed, k)
	switch c.Kind {
	case "divide":
		f := polyClass(c.F, c.J, p)
		fv := vecReg(f)
		for _, idx := range c.K {
			if strings.HasPrefix(c.F, "rel:") {
				// polynomials shaped RELATIVE to the index divided at: unit vectors next to it, a step / plateau starting at it,
				// a dense prefix ending right before it (the shape of an absence proof)
				f = make([]fr.Element, 256)
				switch c.F {
				case "rel:unit-1":
					f[(idx+255)%256] = p.fr()
				case "rel:unit+1":
					f[(idx+1)%256] = p.fr()
				case "rel:step":
					a, b := p.fr(), p.fr()
					for i := range f {
						if i < idx {
							f[i] = a
						} else {
							f[i] = b
						}
					}
				case "rel:plateau":
					for i := range f {
						f[i] = p.fr()
					}
					f[(idx+1)%256] = f[idx]
				default: // rel:prefix
					for i := 0; i < idx; i++ {
						f[i] = p.fr()
					}
				}
				fv = vecReg(f)
			}
			before := append([]fr.Element(nil), f...)
			q := cfg.PrecomputedWeights.DivideOnDomain(uint8(idx), f)
			same := true
			for i := range f {
				if f[i] != before[i] {
					same = false
				}
			}
			w.emit(ev{"ev": "divide", "k": k, "cls": c.F, "f": fv, "idx": idx, "out": vecReg(q), "f_unchanged": same})
		}
	case "bary":
		z := pointValue(c.Z, p)
		zf := frFromBig(z)
		b := cfg.PrecomputedWeights.ComputeBarycentricCoefficients(zf)
		f := polyClass(c.F, c.J, p)
		ip, _ := ipa.InnerProd(f, b)
		w.emit(ev{"ev": "bary", "k": k, "cls": c.Z, "z": limbsOfBig(z), "out": vecReg(b), "f": vecReg(f), "fcls": c.F, "ip": frReg(&ip), "full": c.Full})
	case "baryhist":
		// a call outside the property's quantification first (z = j inside the domain: recorded, not judged), then - on the same
		// PrecomputedWeights - the judged call, twice (whatever the first call left behind may surface on a later use only)
		var zin fr.Element
		zin.SetUint64(uint64(c.J))
		pre := cfg.PrecomputedWeights.ComputeBarycentricCoefficients(zin)
		w.emit(ev{"ev": "bary_pre", "k": k, "j": c.J, "out": vecReg(pre)})
		z := pointValue(c.Z, p)
		for rep := 0; rep < 3; rep++ {
			b := cfg.PrecomputedWeights.ComputeBarycentricCoefficients(frFromBig(z))
			f := polyClass(c.F, rep+1, p)
			ip, _ := ipa.InnerProd(f, b)
			w.emit(ev{"ev": "bary", "k": k, "cls": c.Z, "z": limbsOfBig(z), "out": vecReg(b), "f": vecReg(f), "fcls": c.F, "ip": frReg(&ip), "full": c.Full && rep == 0})
			// the returned vector is the caller's: it is used as scratch space here (scaled in place, one entry cleared) before the same
			// point is evaluated again - a result that shares storage with what an earlier call handed out shows on the next repetition
			for i := range b {
				b[i].Double(&b[i])
			}
			b[(k+rep)%len(b)].SetZero()
		}
	case "tables":
		bw := ipa.VerifBarycentricWeights(cfg.PrecomputedWeights)
		inv := ipa.VerifInvertedDomain(cfg.PrecomputedWeights)
		w.emit(ev{"ev": "poly_tables", "k": k, "bw": vecReg(bw), "inv": vecReg(inv)})
	}
}
