package main

import (
	"bytes"
	"crypto/sha256"
	"encoding/json"
	"fmt"
	"math/big"

	multiproof "github.com/crate-crypto/go-ipa"
	"github.com/crate-crypto/go-ipa/bandersnatch"
	"github.com/crate-crypto/go-ipa/bandersnatch/fp"
	"github.com/crate-crypto/go-ipa/bandersnatch/fr"
	"github.com/crate-crypto/go-ipa/banderwagon"
	"github.com/crate-crypto/go-ipa/common"
	"github.com/crate-crypto/go-ipa/ipa"
)

// ---- family "purity": fingerprints of the shared configuration and of package-level state around every
//      call of a mixed API history; a fixed probe call replayed at several positions (C13) ----

type purityProg struct {
	Ops []struct {
		Op string `json:"op"`
		A  int    `json:"a"`
	} `json:"ops"`
}

func hashFp(h interface{ Write([]byte) (int, error) }, e *fp.Element) {
	b := e.Bytes()
	h.Write(b[:])
}
func hashElem(h interface{ Write([]byte) (int, error) }, e *banderwagon.Element) {
	x, y, z := banderwagon.VerifCoords(e)
	hashFp(h, &x)
	hashFp(h, &y)
	hashFp(h, &z)
}

func fpConfig(cfg *ipa.IPAConfig) []int {
	h := sha256.New()
	for i := range cfg.SRS {
		hashElem(h, &cfg.SRS[i])
	}
	hashElem(h, &cfg.Q)
	for _, v := range ipa.VerifBarycentricWeights(cfg.PrecomputedWeights) {
		b := v.Bytes()
		h.Write(b[:])
	}
	for _, v := range ipa.VerifInvertedDomain(cfg.PrecomputedWeights) {
		b := v.Bytes()
		h.Write(b[:])
	}
	h.Write([]byte{byte(ipa.VerifNumRounds(cfg))})
	return bytesToInts(h.Sum(nil))
}

func fpPackage() []int {
	h := sha256.New()
	hashElem(h, &banderwagon.Generator)
	hashElem(h, &banderwagon.Identity)
	hashFp(h, &bandersnatch.Identity.X)
	hashFp(h, &bandersnatch.Identity.Y)
	hashFp(h, &bandersnatch.Identity.Z)
	hashFp(h, &bandersnatch.IdentityExt.X)
	hashFp(h, &bandersnatch.IdentityExt.Y)
	hashFp(h, &bandersnatch.IdentityExt.Z)
	hashFp(h, &bandersnatch.IdentityExt.T)
	hashFp(h, &bandersnatch.CurveParams.A)
	hashFp(h, &bandersnatch.CurveParams.D)
	hashFp(h, &bandersnatch.CurveParams.Base.X)
	hashFp(h, &bandersnatch.CurveParams.Base.Y)
	// the square-root tables of package fp (read by every point decoding)
	for i := 0; i < fp.VerifSqrtBlocks; i++ {
		for j := 0; j < 1<<fp.VerifSqrtBlockSize; j++ {
			t := fp.VerifSqrtBlockEntry(i, j)
			hashFp(h, &t)
		}
	}
	for i := 0; i <= 32; i++ {
		t := fp.VerifSqrtDyadicRoot(i)
		hashFp(h, &t)
	}
	for _, l := range multiproof.VerifLabels() {
		h.Write(l)
		h.Write([]byte{0})
	}
	for _, l := range ipa.VerifLabels() {
		h.Write(l)
		h.Write([]byte{0})
	}
	return bytesToInts(h.Sum(nil))
}

func fpTables(cfg *ipa.IPAConfig) []int {
	h := sha256.New()
	for i := 0; i < 256; i++ {
		_, nw, ne := banderwagon.VerifPrecompDims(&cfg.PrecompMSM, i)
		for w := 0; w < nw; w++ {
			for j := 0; j < ne; j++ {
				x, y, t := banderwagon.VerifPrecompEntry(&cfg.PrecompMSM, i, w, j)
				hashFp(h, &x)
				hashFp(h, &y)
				hashFp(h, &t)
			}
		}
	}
	return bytesToInts(h.Sum(nil))
}

// the probe: a fixed set of calls whose outputs must not depend on what happened before
func probe(cfg *ipa.IPAConfig) []int {
	h := sha256.New()
	f := polyClass("linear", 3, nil)
	c := cfg.Commit(f)
	b := c.Bytes()
	h.Write(b[:])
	g := polyClass("const", 1, nil)
	cg := cfg.Commit(g)
	tr := common.NewTranscript("probe")
	p, err := multiproof.CreateMultiProof(tr, cfg, []*banderwagon.Element{&c, &cg, &c}, [][]fr.Element{f, g, f}, []uint8{0, 255, 7})
	if err != nil {
		h.Write([]byte(err.Error()))
	} else {
		var buf bytes.Buffer
		p.Write(&buf)
		h.Write(buf.Bytes())
		one := frFromBig(big.NewInt(10)) // g(255) = 7 + 1 + ... const class value: checked below through the verifier's verdict
		_ = one
		vtr := common.NewTranscript("probe")
		y0, y1, y2 := f[0], g[255], f[7]
		ok, verr := multiproof.CheckMultiProof(vtr, cfg, p, []*banderwagon.Element{&c, &cg, &c}, []*fr.Element{&y0, &y1, &y2}, []uint8{0, 255, 7})
		h.Write([]byte(fmt.Sprint(ok, verr == nil)))
	}
	var m fr.Element
	banderwagon.Generator.MapToScalarField(&m)
	mb := m.Bytes()
	h.Write(mb[:])
	t2 := common.NewTranscript("probe2")
	t2.AppendPoint(&banderwagon.Generator, []byte("G"))
	ch := t2.ChallengeScalar([]byte("c"))
	cb := ch.Bytes()
	h.Write(cb[:])
	// the pure helpers directly: evaluation coefficients outside the domain, a quotient, a decompression, a scalar round trip
	for _, e := range cfg.PrecomputedWeights.ComputeBarycentricCoefficients(frFromBig(big.NewInt(300))) {
		eb := e.Bytes()
		h.Write(eb[:])
	}
	for _, e := range cfg.PrecomputedWeights.DivideOnDomain(7, f) {
		eb := e.Bytes()
		h.Write(eb[:])
	}
	gb := banderwagon.Generator.Bytes()
	var dec banderwagon.Element
	derr := dec.SetBytes(gb[:])
	db := dec.Bytes()
	h.Write(db[:])
	h.Write([]byte(fmt.Sprint(derr == nil)))
	var sc fr.Element
	sc.SetBytesLE(cb[:])
	sb := sc.BytesLE()
	h.Write(sb[:])
	return bytesToInts(h.Sum(nil))
}

func (d *driver) runPurityProgram(w emitter, pid int, line []byte) {
	var p purityProg
	if err := json.Unmarshal(line, &p); err != nil {
		panic(fmt.Sprintf("bad purity program %d: %v", pid, err))
	}
	cfg := getConf()
	rnd := newPrg("purity", d.seed, pid)
	w.emit(ev{"ev": "fp", "prog": pid, "k": -1, "op": "start", "cfg": fpConfig(cfg), "pkg": fpPackage(), "tables": fpTables(cfg), "probe": probe(cfg), "inputs_unchanged": true})
	for k, o := range p.Ops {
		e := ev{"ev": "fp", "prog": pid, "k": k, "op": o.Op}
		unchanged := true
		afterOK, afterSet := false, false
		func() {
			defer func() {
				if r := recover(); r != nil {
					e["panic"] = fmt.Sprint(r)
				}
			}()
			switch o.Op {
			case "commit":
				f := polyClass([]string{"random", "small", "max", "sparse"}[o.A%4], o.A, rnd)
				fb := append([]fr.Element(nil), f...)
				_ = cfg.Commit(f)
				unchanged = eqFr(f, fb)
			case "msm":
				n := []int{1, 2, 3, 17, 128, 256}[o.A%6]
				sc := make([]fr.Element, n)
				for i := range sc {
					// o.A selects the scalar pattern: dense, zeros interleaved with non-zero values, mostly zero, small
					switch (o.A / 6) % 4 {
					case 0:
						sc[i] = rnd.fr()
					case 1:
						if i%2 == 1 {
							sc[i] = rnd.fr()
						}
					case 2:
						if i%7 == 3 || i == n-1 {
							sc[i] = rnd.fr()
						}
					default:
						sc[i] = frFromBig(big.NewInt(int64(rnd.intn(3))))
					}
				}
				scb := append([]fr.Element(nil), sc...)
				_, _ = ipa.MultiScalar(cfg.SRS[:n], sc) // a slice of the SRS itself is handed to the MSM
				unchanged = eqFr(sc, scb)
			case "prove", "verify":
				n := 1 + o.A%5
				fs := make([][]fr.Element, n)
				cs := make([]*banderwagon.Element, n)
				zs := make([]uint8, n)
				for i := 0; i < n; i++ {
					fs[i] = polyClass([]string{"random", "small", "unit", "const", "sparse"}[(o.A+i)%5], i, rnd)
					c := cfg.Commit(fs[i])
					if i%2 == 1 {
						c = applyRep(c, "proj", rnd)
					}
					cs[i] = &c
					zs[i] = uint8((o.A*31 + i*97) % 256)
				}
				if n >= 3 {
					fs[2], cs[2] = fs[0], cs[0] // a shared polynomial slice and commitment pointer
				}
				fsb := make([][]fr.Element, n)
				for i := range fs {
					fsb[i] = append([]fr.Element(nil), fs[i]...)
				}
				zsb := append([]uint8(nil), zs...)
				tr := common.NewTranscript("purity")
				pf, err := multiproof.CreateMultiProof(tr, cfg, cs, fs, zs)
				for i := range fs {
					if !eqFr(fs[i], fsb[i]) {
						unchanged = false
					}
				}
				if !bytes.Equal(zs, zsb) {
					unchanged = false
				}
				if err == nil && o.Op == "verify" {
					ys := make([]*fr.Element, n)
					for i := range ys {
						y := fs[i][zs[i]]
						ys[i] = &y
					}
					pfb := cloneProof(pf)
					csb := elemList(cs)
					vtr := common.NewTranscript("purity")
					ok, _ := multiproof.CheckMultiProof(vtr, cfg, pf, cs, ys, zs)
					a, _ := json.Marshal(proofJSON(pfb))
					b, _ := json.Marshal(proofJSON(pf))
					c1, _ := json.Marshal(csb)
					c2, _ := json.Marshal(elemList(cs))
					if !ok || !bytes.Equal(a, b) || !bytes.Equal(c1, c2) {
						unchanged = false
					}
				}
			case "ipa":
				f := polyClass([]string{"random", "sparse", "unit", "small", "linear"}[(o.A/4)%5], o.A, rnd)
				fb := append([]fr.Element(nil), f...)
				c := cfg.Commit(f)
				pt := frFromBig(pointValue([]string{"0", "255", "256", "rnd"}[o.A%4], rnd))
				tr := common.NewTranscript("purity-ipa")
				pf, err := ipa.CreateIPAProof(tr, cfg, c, f, pt)
				if err == nil {
					b := ipa.VerifComputeBVector(cfg, pt)
					y, _ := ipa.InnerProd(f, b)
					vtr := common.NewTranscript("purity-ipa")
					ok, _ := ipa.CheckIPAProof(vtr, cfg, c, pf, pt, y)
					if !ok {
						unchanged = false
					}
				}
				unchanged = unchanged && eqFr(f, fb)
			case "group":
				// group operations on copies of configuration elements, by pointer into the SRS
				a, b := &cfg.SRS[o.A%256], &cfg.SRS[(o.A*7+1)%256]
				var r banderwagon.Element
				r.Add(a, b)
				r.Sub(&r, b)
				s := rnd.fr()
				r.ScalarMul(a, &s)
				r.AddMixed(&r, affineOf(&banderwagon.Generator))
				r.Double(&cfg.Q)
				_ = r.Equal(a)
				_ = a.Bytes()
				_ = banderwagon.Identity.Bytes()
				var m fr.Element
				a.MapToScalarField(&m)
			case "batch":
				// batch helpers on COPIES of configuration elements (BatchNormalize writes through its pointers)
				n := 2 + o.A%4
				cp := make([]banderwagon.Element, n)
				ptrs := make([]*banderwagon.Element, n)
				for i := range cp {
					cp[i] = applyRep(cfg.SRS[(o.A+i)%256], []string{"norm", "proj", "flip"}[i%3], rnd)
					ptrs[i] = &cp[i]
				}
				_ = banderwagon.ElementsToBytes(ptrs...)
				_ = banderwagon.BatchToBytesUncompressed(ptrs...)
				res := make([]*fr.Element, n)
				for i := range res {
					res[i] = new(fr.Element)
				}
				_ = banderwagon.BatchMapToScalarField(res, ptrs)
				_ = banderwagon.BatchNormalize(ptrs)
			case "codec":
				valid, pf := honestProofBytes(d)
				vb := append([]byte(nil), valid...)
				var mp multiproof.MultiProof
				_ = mp.Read(bytes.NewReader(valid))
				var out bytes.Buffer
				_ = pf.Write(&out)
				var e2 banderwagon.Element
				_ = e2.SetBytes(valid[:32])
				_ = e2.SetBytesUncompressed(append(append([]byte(nil), valid[:32]...), valid[32:64]...), false)
				// the special elements: the identity in both representatives, the generator, an SRS point, through every decoder
				for _, src := range []banderwagon.Element{banderwagon.Identity, rescaled(banderwagon.Identity, big.NewInt(1), true), banderwagon.Generator, cfg.SRS[o.A%256]} {
					b := src.Bytes()
					u := src.BytesUncompressedTrusted()
					var e3 banderwagon.Element
					_ = e3.SetBytes(b[:])
					_ = e3.SetBytesUnsafe(b[:])
					_ = e3.SetBytesUncompressed(u[:], false)
					_ = e3.SetBytesUncompressed(u[:], true)
					_, _ = common.ReadPoint(bytes.NewReader(b[:]))
				}
				unchanged = bytes.Equal(valid, vb)
			case "transcript":
				tr := common.NewTranscript("purity-tr")
				tr.AppendPoint(&cfg.SRS[o.A%256], []byte("C"))
				tr.AppendPoint(&cfg.Q, []byte("Q"))
				s := rnd.fr()
				sb := s
				tr.AppendScalar(&s, []byte("s"))
				_ = tr.ChallengeScalar([]byte("x"))
				unchanged = s == sb
			case "poly":
				f := polyClass("random", o.A, rnd)
				fb := append([]fr.Element(nil), f...)
				_ = cfg.PrecomputedWeights.DivideOnDomain(uint8(o.A%256), f)
				_ = cfg.PrecomputedWeights.ComputeBarycentricCoefficients(frFromBig(big.NewInt(int64(300 + o.A))))
				if o.A%2 == 1 { // a point INSIDE the domain (outside what C18 quantifies over, but a legal call)
					_ = cfg.PrecomputedWeights.ComputeBarycentricCoefficients(frFromBig(big.NewInt(int64(o.A % 256))))
				}
				unchanged = eqFr(f, fb)
			case "failing":
				// calls that FAIL (rejections and error returns), one of several kinds: whatever a failing call leaves behind must not
				// influence later calls (the probe and the fingerprints that follow decide)
				f := polyClass("small", o.A, rnd)
				cm := cfg.Commit(f)
				z := uint8(o.A % 256)
				tr := common.NewTranscript("purity-fail")
				pf, err := multiproof.CreateMultiProof(tr, cfg, []*banderwagon.Element{&cm, &cm}, [][]fr.Element{f, f}, []uint8{z, z})
				if err != nil {
					break
				}
				one := fr.One()
				for kind := 0; kind < 7; kind++ {
					y, y2 := f[z], f[z]
					cs := []*banderwagon.Element{&cm, &cm}
					ys := []*fr.Element{&y, &y2}
					zs := []uint8{z, z}
					bad := cloneProof(pf)
					switch (kind + o.A) % 7 {
					case 0: // wrong claimed value: rejected
						y2.Add(&y2, &one)
					case 1: // seven L points: error from the IPA layer
						bad.IPA.L = bad.IPA.L[:7]
					case 2: // seven R points
						bad.IPA.R = bad.IPA.R[:7]
					case 3: // length mismatch: error before anything is computed
						ys = ys[:1]
					case 4: // no openings
						cs, ys, zs = nil, nil, nil
					case 5: // wrong final scalar
						bad.IPA.A_scalar.Add(&bad.IPA.A_scalar, &one)
					case 6: // both lists empty
						bad.IPA.L, bad.IPA.R = nil, nil
					}
					func() {
						defer func() { recover() }()
						multiproof.CheckMultiProof(common.NewTranscript("purity-fail"), cfg, bad, cs, ys, zs)
					}()
				}
				// failing prover calls: a polynomial of the wrong length, mismatched list lengths, no openings
				func() {
					defer func() { recover() }()
					multiproof.CreateMultiProof(common.NewTranscript("purity-fail"), cfg, []*banderwagon.Element{&cm}, [][]fr.Element{f[:255]}, []uint8{z})
					multiproof.CreateMultiProof(common.NewTranscript("purity-fail"), cfg, []*banderwagon.Element{&cm, &cm}, [][]fr.Element{f}, []uint8{z})
					multiproof.CreateMultiProof(common.NewTranscript("purity-fail"), cfg, nil, nil, nil)
					ipa.CreateIPAProof(common.NewTranscript("pf"), cfg, cm, f[:100], frFromBig(big.NewInt(3)))
				}()
				// a prover call rejected because of ONE bad commitment (Z = 0: cannot be normalised) listed after good, not yet normalised
				// ones: the good commitments are caller-supplied inputs and must still stand for the same elements afterwards
				func() {
					defer func() { recover() }()
					g1 := cfg.Commit(polyClass("random", o.A+1, rnd))
					g2 := cm
					// (proof creation may re-normalise its commitments - C13 permits that - so the comparison is on the affine point each
					// representation stands for, computed with math/big: the same point or its class twin (-x, -y), and a non-zero Z)
					aff := func(e *banderwagon.Element) (ax, ay *big.Int, ok bool) {
						x, y, z := banderwagon.VerifCoords(e)
						zb := fpRegBig(&z)
						if zb.Sign() == 0 {
							return nil, nil, false
						}
						zi := new(big.Int).ModInverse(zb, modP)
						ax = new(big.Int).Mul(fpRegBig(&x), zi)
						ay = new(big.Int).Mul(fpRegBig(&y), zi)
						return ax.Mod(ax, modP), ay.Mod(ay, modP), true
					}
					same := func(ax, ay, bx, by *big.Int) bool {
						if ax.Cmp(bx) == 0 && ay.Cmp(by) == 0 {
							return true
						}
						nx, ny := new(big.Int).Sub(modP, bx), new(big.Int).Sub(modP, by)
						return ax.Cmp(nx.Mod(nx, modP)) == 0 && ay.Cmp(ny.Mod(ny, modP)) == 0
					}
					x1, y1, _ := aff(&g1)
					x2, y2, _ := aff(&g2)
					bx, by, _ := banderwagon.VerifCoords(&cfg.SRS[5])
					badEl := banderwagon.VerifFromCoords(bx, by, fp.Zero())
					lists := [][]*banderwagon.Element{{&g1, &g2, &badEl}, {&g1, &badEl, &g2}, {&g1, &g1, &badEl, &g2}}
					cs := lists[o.A%3]
					fsx := make([][]fr.Element, len(cs))
					zsx := make([]uint8, len(cs))
					for j := range cs {
						fsx[j] = f
						zsx[j] = uint8(j)
					}
					_, perr := multiproof.CreateMultiProof(common.NewTranscript("purity-fail"), cfg, cs, fsx, zsx)
					a1, b1, ok1 := aff(&g1)
					a2, b2, ok2 := aff(&g2)
					if perr != nil && !(ok1 && ok2 && same(a1, b1, x1, y1) && same(a2, b2, x2, y2)) {
						unchanged = false
					}
				}()
				// the honest statement right after the failing calls
				{
					y, y2 := f[z], f[z]
					ok, verr := multiproof.CheckMultiProof(common.NewTranscript("purity-fail"), cfg, pf, []*banderwagon.Element{&cm, &cm}, []*fr.Element{&y, &y2}, []uint8{z, z})
					afterOK = ok && verr == nil
					afterSet = true
				}
				// failing IPA verification, failing decodes, failing proof reads
				func() {
					defer func() { recover() }()
					ip, e2 := ipa.CreateIPAProof(common.NewTranscript("pf"), cfg, cm, f, frFromBig(big.NewInt(int64(300+o.A))))
					if e2 == nil {
						ip.L = ip.L[:6]
						ipa.CheckIPAProof(common.NewTranscript("pf"), cfg, cm, ip, frFromBig(big.NewInt(int64(300+o.A))), one)
					}
					var el banderwagon.Element
					el.SetBytes(make([]byte, 31))
					el.SetBytes(bytes.Repeat([]byte{0xff}, 32))
					var mp multiproof.MultiProof
					mp.Read(bytes.NewReader(make([]byte, 100)))
					var sc fr.Element
					sc.SetBytesLECanonical(bytes.Repeat([]byte{0xff}, 32))
				}()
			case "precomp":
				// a precomputed point over an element of the shared SRS (passed by value), every window size the constructor accepts
				P := cfg.SRS[o.A%256]
				pp, err := banderwagon.NewPrecompPoint(P, []int{1, 2, 4, 8}[o.A%4])
				if err == nil {
					res := bandersnatch.IdentityExt
					pp.ScalarMul(rnd.fr(), &res)
				}
				unchanged = P == cfg.SRS[o.A%256]
			case "crs":
				_ = ipa.GenerateRandomPoints(uint64(1 + o.A%7))
			case "misc":
				// the remaining exported helpers on pointers into the shared configuration
				src := &cfg.SRS[o.A%256]
				before := *src
				_ = src.IsOnCurve()
				b := src.Bytes()
				var u banderwagon.Element
				_ = u.SetBytesUnsafe(b[:])
				aff := affineOf(src)
				var buf bytes.Buffer
				bandersnatch.WriteUncompressedPoint(&buf, &aff)
				bandersnatch.ReadUncompressedPoint(bytes.NewReader(buf.Bytes()))
				pj := bandersnatch.PointProj{X: aff.X, Y: aff.Y}
				pj.Z.SetOne()
				pe := bandersnatch.PointExtendedFromProj(&pj)
				var t fp.Element
				t.Mul(&aff.X, &aff.Y)
				qn := bandersnatch.PointExtendedNormalized{X: aff.X, Y: aff.Y, T: t}
				bandersnatch.ExtendedAddNormalized(&pe, &pe, &qn)
				x := rnd.fr()
				_ = common.PowersOf(x, 1+o.A%9)
				_ = x.String()
				unchanged = before == *src
			case "probe", "tables":
			}
		}()
		e["inputs_unchanged"] = unchanged
		if afterSet {
			e["after_ok"] = afterOK
		}
		e["cfg"] = fpConfig(cfg)
		e["pkg"] = fpPackage()
		if o.Op == "probe" || o.Op == "failing" { // the fixed probe call (prove, verify, map, transcript) also right after the failing calls
			e["probe"] = probe(cfg)
		}
		if o.Op == "tables" {
			e["tables"] = fpTables(cfg)
		}
		w.emit(e)
	}
	w.emit(ev{"ev": "fp", "prog": pid, "k": len(p.Ops), "op": "end", "cfg": fpConfig(cfg), "pkg": fpPackage(), "tables": fpTables(cfg), "probe": probe(cfg), "inputs_unchanged": true})
}

func eqFr(a, b []fr.Element) bool {
	if len(a) != len(b) {
		return false
	}
	for i := range a {
		if a[i] != b[i] {
			return false
		}
	}
	return true
}
