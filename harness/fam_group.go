package main

import (
	"bytes"
	"encoding/json"
	"fmt"
	"math/big"
	"strconv"
	"strings"
	"sync"

	"github.com/crate-crypto/go-ipa/bandersnatch"
	"github.com/crate-crypto/go-ipa/bandersnatch/fp"
	"github.com/crate-crypto/go-ipa/bandersnatch/fr"
	"github.com/crate-crypto/go-ipa/banderwagon"
	"github.com/crate-crypto/go-ipa/ipa"
)

// ---- family "group": API histories over a pool of element slots (C07 C08 C11 C13 C19) ----

type gop struct {
	Op string `json:"op"`
	D  int    `json:"d"`
	A  int    `json:"a"`
	B  int    `json:"b"`
	S  string `json:"s"`
	L  []int  `json:"l"`
}
type gprog struct {
	Ops []gop `json:"ops"`
}

var (
	confOnce sync.Once
	conf     *ipa.IPAConfig
)

func getConf() *ipa.IPAConfig {
	confOnce.Do(func() {
		c, err := ipa.NewIPASettings()
		if err != nil {
			panic(err)
		}
		conf = c
	})
	return conf
}

var lambdaGLV = func() *big.Int {
	m2 := new(big.Int).Sub(modR, big.NewInt(2))
	return new(big.Int).ModSqrt(m2, modR)
}()

func scalarClass(name string, p *prg) *big.Int {
	one := big.NewInt(1)
	// "relb:<j>": a base scalar; "relr:<j>:<i>": its i-th limb relative (same limb xor / sum / single limb / multiset, see limbRelatives);
	// a trailing "m" puts the limbs into the stored (Montgomery) words instead of the canonical digits
	if strings.HasPrefix(name, "relb:") || strings.HasPrefix(name, "relr:") {
		stored := strings.HasSuffix(name, "m")
		f := strings.Split(strings.TrimSuffix(name, "m"), ":")
		j, _ := strconv.Atoi(f[1])
		q := newPrg("relscalar", j)
		var base [4]uint64
		for t := range base {
			base[t] = q.big(60).Uint64() | 1
		}
		l := base
		if f[0] == "relr" {
			_, rels := limbRelatives(base, q)
			i, _ := strconv.Atoi(f[2])
			l = rels[i%len(rels)]
		}
		v := bigOfWords(l)
		if stored {
			v = montWords(v)
		}
		return v.Mod(v, modR)
	}
	sh := func(k uint) *big.Int { return new(big.Int).Lsh(one, k) }
	switch name {
	case "0":
		return big.NewInt(0)
	case "1":
		return one
	case "2":
		return big.NewInt(2)
	case "3":
		return big.NewInt(3)
	case "r-1":
		return new(big.Int).Sub(modR, one)
	case "r-2":
		return new(big.Int).Sub(modR, big.NewInt(2))
	case "h":
		return new(big.Int).Rsh(modR, 1)
	case "2^64":
		return sh(64)
	case "2^64-1":
		return new(big.Int).Sub(sh(64), one)
	case "2^63":
		return sh(63)
	case "2^128-1":
		return new(big.Int).Sub(sh(128), one)
	case "2^192-1":
		return new(big.Int).Sub(sh(192), one)
	case "2^128":
		return sh(128)
	case "2^252":
		return sh(252)
	case "lam":
		return new(big.Int).Set(lambdaGLV)
	case "lam+1":
		return new(big.Int).Add(lambdaGLV, one)
	case "lam-1":
		return new(big.Int).Sub(lambdaGLV, one)
	case "-lam":
		return new(big.Int).Sub(modR, lambdaGLV)
	case "2^64+1", "2^128+1", "2^192+1", "2^69+2^5", "2^200+2^8", "3bits": // several set bits at the SAME position of different 64-bit limbs
		v := map[string][]uint{"2^64+1": {64, 0}, "2^128+1": {128, 0}, "2^192+1": {192, 0}, "2^69+2^5": {69, 5}, "2^200+2^8": {200, 8}, "3bits": {191, 127, 63}}[name]
		x := new(big.Int)
		for _, b := range v {
			x.SetBit(x, int(b), 1)
		}
		return x
	default:
		if v := montClass(name); v != nil {
			return v
		}
		x := p.big(300)
		return x.Mod(x, modR)
	}
}

func coordsOrNil(e *banderwagon.Element) [][]int { return coords(e) }

type gstate struct {
	pool [6]banderwagon.Element
	st   [6]string
}

func affineOf(e *banderwagon.Element) bandersnatch.PointAffine {
	x, y, z := banderwagon.VerifCoords(e)
	pp := bandersnatch.PointProj{X: x, Y: y, Z: z}
	var a bandersnatch.PointAffine
	a.FromProj(&pp)
	return a
}

func (d *driver) runGroupProgram(w emitter, pid int, line []byte) {
	var p gprog
	if err := json.Unmarshal(line, &p); err != nil {
		// TLC's CSVWrite quotes the JSON string
		var s string
		if err2 := json.Unmarshal(line, &s); err2 != nil || json.Unmarshal([]byte(s), &p) != nil {
			panic(fmt.Sprintf("bad program %d: %v", pid, err))
		}
	}
	cfg := getConf()
	g := &gstate{}
	for i := 1; i <= 5; i++ {
		g.pool[i] = banderwagon.Generator
		g.st[i] = "ok"
	}
	rnd := newPrg("group", d.seed, pid)
	w.emit(ev{"ev": "reset", "prog": pid, "pool": g.observeCoords()})
	for k, o := range p.Ops {
		e := ev{"ev": "g", "prog": pid, "k": k, "op": o.Op, "d": o.D, "a": o.A, "b": o.B, "l": o.L, "sc": o.S}
		func() {
			defer func() {
				if r := recover(); r != nil {
					e["panic"] = fmt.Sprint(r)
				}
			}()
			g.apply(cfg, &o, e, rnd)
		}()
		g.observe(e)
		w.emit(e)
	}
}

func (g *gstate) observeCoords() [][][]int {
	out := make([][][]int, 5)
	for i := 1; i <= 5; i++ {
		out[i-1] = coords(&g.pool[i])
	}
	return out
}

// observe logs the whole pool after the call: raw coordinates, the Equal matrix, and for valid
// slots Bytes() and MapToScalarField()
func (g *gstate) observe(e ev) {
	e["pool"] = g.observeCoords()
	e["st"] = g.st[1:6]
	eq := make([][]bool, 5)
	for i := 1; i <= 5; i++ {
		eq[i-1] = make([]bool, 5)
		for j := 1; j <= 5; j++ {
			a, b := g.pool[i], g.pool[j]
			eq[i-1][j-1] = a.Equal(&b)
		}
	}
	e["eq"] = eq
	bs := make([][]int, 5)
	ms := make([][]int, 5)
	for i := 1; i <= 5; i++ {
		if g.st[i] != "ok" {
			bs[i-1], ms[i-1] = []int{}, []int{}
			continue
		}
		c := g.pool[i]
		b := c.Bytes()
		bs[i-1] = bytesToInts(b[:])
		var m fr.Element
		c.MapToScalarField(&m)
		ms[i-1] = frReg(&m)
	}
	e["bytes"] = bs
	e["map"] = ms
}

func (g *gstate) ptrs(l []int) []*banderwagon.Element {
	out := make([]*banderwagon.Element, len(l))
	for i, s := range l {
		out[i] = &g.pool[s]
	}
	return out
}

func (g *gstate) apply(cfg *ipa.IPAConfig, o *gop, e ev, rnd *prg) {
	P := &g.pool
	switch o.Op {
	case "gen":
		P[o.D] = banderwagon.Generator
		g.st[o.D] = "ok"
	case "id":
		P[o.D].SetIdentity()
		g.st[o.D] = "ok"
	case "srs":
		P[o.D] = cfg.SRS[o.A]
		g.st[o.D] = "ok"
	case "ypt":
		// an element chosen from the y side (see decodeInput): half of the time the representative with the smaller y
		c := decCase{Fn: "SetBytesUncompressed", Cls: o.S}
		buf := (&driver{seed: int(rnd.intn(1 << 20))}).decodeInput(&c, o.A)
		x, y := new(big.Int).SetBytes(buf[:32]), new(big.Int).SetBytes(buf[32:])
		if o.A%4 >= 2 {
			x, y = subm(big.NewInt(0), x), subm(big.NewInt(0), y)
		}
		P[o.D] = banderwagon.VerifFromCoords(fpFromBig(x), fpFromBig(y), fpFromBig(big.NewInt(1)))
		e["pt"] = [][]int{limbsOfBig(x), limbsOfBig(y)}
		g.st[o.D] = "ok"
	case "spt":
		// a distinguished element (G, -G, 2G, the identity, SRS[0], -SRS[0]) in a chosen raw representative: (x, y, 1), (-x, -y, 1), projective, both
		cfg0 := getConf()
		var base banderwagon.Element
		switch o.A % 6 {
		case 0:
			base = banderwagon.Generator
		case 1:
			base.Neg(&banderwagon.Generator)
		case 2:
			base.Double(&banderwagon.Generator)
		case 3:
			base = banderwagon.Identity
		case 4:
			base = cfg0.SRS[0]
		default:
			base.Neg(&cfg0.SRS[0])
		}
		base.Normalize()
		P[o.D] = applyRep(base, o.S, rnd)
		x, y, z := banderwagon.VerifCoords(&P[o.D])
		zi := new(big.Int).ModInverse(fpRegBig(&z), modP)
		e["pt"] = [][]int{limbsOfBig(mulm(fpRegBig(&x), zi)), limbsOfBig(mulm(fpRegBig(&y), zi))}
		g.st[o.D] = "ok"
	case "rpt":
		// an element whose ratio x/y (what MapToScalarField reduces mod r) sits at a boundary of that reduction: next to a multiple of r,
		// agreeing with k*r on its top limb, next to p, next to 0, next to a 64-bit limb boundary
		k := int64(1 + o.A%4)
		j := int64(1 + o.A/4)
		kr := new(big.Int).Mul(modR, big.NewInt(k))
		var rho *big.Int
		step := int64(1)
		switch o.S {
		case "kr-":
			rho, step = new(big.Int).Sub(kr, big.NewInt(j)), -1
		case "kr+":
			rho = new(big.Int).Add(kr, big.NewInt(j-1))
		case "krlow": // below k*r, same top 64 bits
			rho, step = new(big.Int).Sub(kr, new(big.Int).Rsh(rnd.big(256), 70)), -1
		case "nearp":
			rho, step = new(big.Int).Sub(modP, big.NewInt(j)), -1
		case "small":
			rho = big.NewInt(j)
		default: // "limb": next to 2^64, 2^128, 2^192
			rho = new(big.Int).Lsh(big.NewInt(1), uint(64*(1+o.A%3)))
			if o.A%2 == 0 {
				rho.Sub(rho, big.NewInt(j))
				step = -1
			}
		}
		x, y := pointFromRatio(rho, step)
		if o.A%8 >= 4 {
			x, y = subm(big.NewInt(0), x), subm(big.NewInt(0), y)
		}
		P[o.D] = banderwagon.VerifFromCoords(fpFromBig(x), fpFromBig(y), fpFromBig(big.NewInt(1)))
		e["pt"] = [][]int{limbsOfBig(x), limbsOfBig(y)}
		g.st[o.D] = "ok"
	case "add":
		P[o.D].Add(&P[o.A], &P[o.B])
		g.st[o.D] = "ok"
	case "sub":
		P[o.D].Sub(&P[o.A], &P[o.B])
		g.st[o.D] = "ok"
	case "addmixed":
		P[o.D].AddMixed(&P[o.A], affineOf(&P[o.B]))
		g.st[o.D] = "ok"
	case "double":
		P[o.D].Double(&P[o.A])
		g.st[o.D] = "ok"
	case "neg":
		P[o.D].Neg(&P[o.A])
		g.st[o.D] = "ok"
	case "set":
		P[o.D].Set(&P[o.A])
		g.st[o.D] = "ok"
	case "smul":
		s := scalarClass(o.S, rnd)
		sm := frFromBig(s)
		before := sm
		P[o.D].ScalarMul(&P[o.A], &sm)
		e["s"] = limbsOfBig(s)
		e["s_unchanged"] = (sm == before)
		g.st[o.D] = "ok"
	case "normalize":
		err := P[o.D].Normalize()
		e["err"] = err != nil
	case "flip":
		x, y, z := banderwagon.VerifCoords(&P[o.D])
		x.Neg(&x)
		y.Neg(&y)
		P[o.D] = banderwagon.VerifFromCoords(x, y, z)
	case "rescale":
		var zv *big.Int
		switch o.S {
		case "2":
			zv = big.NewInt(2)
		case "p-1":
			zv = new(big.Int).Sub(modP, big.NewInt(1))
		default:
			zv = rnd.big(300)
			zv.Mod(zv, modP)
			if zv.Sign() == 0 {
				zv.SetInt64(7)
			}
		}
		l := fpFromBig(zv)
		x, y, z := banderwagon.VerifCoords(&P[o.D])
		x.Mul(&x, &l)
		y.Mul(&y, &l)
		z.Mul(&z, &l)
		P[o.D] = banderwagon.VerifFromCoords(x, y, z)
		e["s"] = limbsOfBig(zv)
	case "zero":
		P[o.D] = banderwagon.Element{}
		g.st[o.D] = "zero"
	case "inf":
		// an un-normalisable value: Z = 0 with non-zero X, Y
		x, y, _ := banderwagon.VerifCoords(&banderwagon.Generator)
		P[o.D] = banderwagon.VerifFromCoords(x, y, fp.Zero())
		g.st[o.D] = "inf"
	case "encdec":
		b := P[o.A].Bytes()
		buf := append([]byte(nil), b[:]...)
		var t banderwagon.Element
		err := t.SetBytes(buf)
		e["err"] = err != nil
		e["buf_unchanged"] = bytes.Equal(buf, b[:])
		if err == nil {
			P[o.D] = t
			g.st[o.D] = "ok"
		}
	case "encdecu":
		b := P[o.A].BytesUncompressedTrusted()
		buf := append([]byte(nil), b[:]...)
		var t banderwagon.Element
		err := t.SetBytesUncompressed(buf, true)
		e["err"] = err != nil
		e["ubytes"] = bytesToInts(b[:])
		e["buf_unchanged"] = bytes.Equal(buf, b[:])
		if err == nil {
			P[o.D] = t
			g.st[o.D] = "ok"
		}
	case "bnorm":
		err := banderwagon.BatchNormalize(g.ptrs(o.L))
		e["err"] = err != nil
	case "bbytes":
		res := banderwagon.ElementsToBytes(g.ptrs(o.L)...)
		out := make([][]int, len(res))
		for i := range res {
			out[i] = bytesToInts(res[i][:])
		}
		e["outs"] = out
	case "bunc":
		res := banderwagon.BatchToBytesUncompressed(g.ptrs(o.L)...)
		out := make([][]int, len(res))
		single := make([][]int, len(res))
		for i := range res {
			out[i] = bytesToInts(res[i][:])
			c := P[o.L[i]]
			sb := c.BytesUncompressedTrusted()
			single[i] = bytesToInts(sb[:])
		}
		e["outs"] = out
		e["single"] = single
	case "bmap":
		res := make([]*fr.Element, len(o.L))
		for i := range res {
			res[i] = new(fr.Element)
		}
		err := banderwagon.BatchMapToScalarField(res, g.ptrs(o.L))
		e["err"] = err != nil
		out := make([][]int, len(res))
		for i := range res {
			out[i] = frReg(res[i])
		}
		e["outs"] = out
	case "Bnorm", "Bbytes", "Bunc", "Bmap":
		// batch helpers on a private heap of o.A cells with a pointer list of pattern o.S; o.B > 0: cell o.B-1 cannot be normalised
		n := o.A
		heap := make([]banderwagon.Element, n)
		for i := range heap {
			base := getConf().SRS[(i*7+3)%256]
			if i%5 == 4 {
				base = banderwagon.Identity
			}
			if i%7 == 3 && i < 64 {
				// boundary elements inside the batches: x/y just below k*r (k = 1..4), canonical y just above (p-1)/2
				var x, y *big.Int
				if i%2 == 1 {
					kr := new(big.Int).Mul(modR, big.NewInt(int64(1+(i/7)%4)))
					x, y = pointFromRatio(new(big.Int).Sub(kr, big.NewInt(int64(1+i))), -1)
				} else {
					half := new(big.Int).Rsh(modP, 1)
					x, y = pointFromY(new(big.Int).Add(half, big.NewInt(int64(1+i))), 1, false)
				}
				base = banderwagon.VerifFromCoords(fpFromBig(x), fpFromBig(y), fpFromBig(big.NewInt(1)))
			}
			heap[i] = applyRep(base, []string{"norm", "proj", "flip", "projflip"}[i%4], rnd)
		}
		// o.D > 0: structured Z coordinates - their PRODUCT is one although the elements are not normalised
		// (1: every Z = -1; 2: reciprocal pairs lambda, 1/lambda; 3: random Z's, the last cell compensates the product of the others)
		if o.D > 0 && n >= 2 {
			setZ := func(i int, z *big.Int) {
				a := affineOf(&heap[i])
				l := fpFromBig(z)
				var x, y fp.Element
				x.Mul(&a.X, &l)
				y.Mul(&a.Y, &l)
				heap[i] = banderwagon.VerifFromCoords(x, y, l)
			}
			prod := big.NewInt(1)
			for i := 0; i < n; i++ {
				var z *big.Int
				switch o.D {
				case 1:
					z = new(big.Int).Sub(modP, big.NewInt(1))
				case 2:
					if i%2 == 0 {
						z = rnd.big(250)
						z.Add(z, big.NewInt(2))
						prod = z
					} else {
						z = new(big.Int).ModInverse(prod, modP)
					}
				default:
					if i < n-1 {
						z = rnd.big(250)
						z.Add(z, big.NewInt(2))
						prod = mulm(prod, z)
					} else {
						z = new(big.Int).ModInverse(prod, modP)
					}
				}
				setZ(i, z)
			}
		}
		if o.B > 0 && o.B-1 < n {
			// the cell that cannot be normalised, in every shape Z = 0 comes in: (x : y : 0), the zero value (0 : 0 : 0), (0 : 1 : 0),
			// (0 : y : 0), (x : 0 : 0)
			x, y, _ := banderwagon.VerifCoords(&heap[o.B-1])
			switch (o.B + n) % 5 {
			case 1:
				x, y = fp.Zero(), fp.Zero()
			case 2:
				x, y = fp.Zero(), fp.One()
			case 3:
				x = fp.Zero()
			case 4:
				y = fp.Zero()
			}
			heap[o.B-1] = banderwagon.VerifFromCoords(x, y, fp.Zero())
		}
		idx := make([]int, n)
		for i := range idx {
			switch o.S {
			case "allsame":
				idx[i] = 0
			case "pairs":
				idx[i] = i / 2
			case "firstlast":
				idx[i] = i
				if i == n-1 {
					idx[i] = 0
				}
			case "cycle3":
				idx[i] = i % 3
			case "reverse":
				idx[i] = n - 1 - i
			default:
				idx[i] = i
			}
		}
		ptrs := make([]*banderwagon.Element, n)
		for i := range ptrs {
			ptrs[i] = &heap[idx[i]]
		}
		before := elemListV(heap)
		e["ptrs"] = idx
		e["heap_before"] = before
		var g tailGuard
		var psent banderwagon.Element
		ptrs = guardSlice(&g, ptrs, &psent)
		defer func() { e["tails_unchanged"] = g.ok() }()
		switch o.Op {
		case "Bnorm":
			err := banderwagon.BatchNormalize(ptrs)
			e["err"] = err != nil
		case "Bbytes":
			res := banderwagon.ElementsToBytes(ptrs...)
			out := make([][]int, len(res))
			for i := range res {
				out[i] = bytesToInts(res[i][:])
			}
			e["outs"] = out
		case "Bunc":
			res := banderwagon.BatchToBytesUncompressed(ptrs...)
			out := make([][]int, len(res))
			for i := range res {
				out[i] = bytesToInts(res[i][:])
			}
			e["outs"] = out
		case "Bmap":
			res := make([]*fr.Element, n)
			slots := make([]fr.Element, n)
			for i := range res {
				res[i] = new(fr.Element)
				if o.D%2 == 1 || n%2 == 1 {
					// the same (element, destination) PAIR listed again wherever the pointer list repeats an element: the destination
					// of a repeated element is one slot (its value is well defined: the map of that element)
					res[i] = &slots[idx[i]]
				}
			}
			err := banderwagon.BatchMapToScalarField(res, ptrs)
			e["err"] = err != nil
			out := make([][]int, len(res))
			for i := range res {
				out[i] = frReg(res[i])
			}
			e["outs"] = out
		}
		e["heap_after"] = elemListV(heap)
	case "msm":
		n := len(o.L)
		pts := make([]banderwagon.Element, n)
		scs := make([]fr.Element, n)
		regs := make([][]int, n)
		mont := o.B == 1
		for i, s := range o.L {
			pts[i] = P[s]
			var v *big.Int
			switch o.S {
			case "zero":
				v = big.NewInt(0)
			case "small":
				v = big.NewInt(int64(rnd.intn(16)))
			case "mix1":
				v = scalarClass([]string{"rnd", "0", "1", "r-1", "rnd", "2^128", "3"}[i%7], rnd)
			default:
				v = scalarClass([]string{"r-1", "rnd", "lam", "2", "rnd", "h", "rnd"}[i%7], rnd)
			}
			regs[i] = limbsOfBig(v)
			if mont {
				scs[i] = frFromBig(v)
			} else {
				scs[i] = frFromRaw(v) // regular form: the words hold the value itself
			}
		}
		ptsBefore := append([]banderwagon.Element(nil), pts...)
		scsBefore := append([]fr.Element(nil), scs...)
		var res banderwagon.Element
		r, err := res.MultiExp(pts, scs, banderwagon.MultiExpConfig{NbTasks: o.A, ScalarsMont: mont})
		e["err"] = err != nil
		e["scalars"] = regs
		same := true
		for i := range pts {
			if pts[i] != ptsBefore[i] || scs[i] != scsBefore[i] {
				same = false
			}
		}
		e["inputs_unchanged"] = same
		if err == nil {
			P[o.D] = *r
			g.st[o.D] = "ok"
		}
	default:
		panic("unknown group op " + o.Op)
	}
}
