package main

import (
	"bytes"
	"fmt"
	"math/big"

	multiproof "github.com/crate-crypto/go-ipa"
	"github.com/crate-crypto/go-ipa/bandersnatch"
	"github.com/crate-crypto/go-ipa/bandersnatch/fp"
	"github.com/crate-crypto/go-ipa/bandersnatch/fr"
	"github.com/crate-crypto/go-ipa/banderwagon"
	"github.com/crate-crypto/go-ipa/common"
	"github.com/crate-crypto/go-ipa/ipa"
)

// ---- family "misc": the exported behaviour that no other family drives (spec/core/Misc.tla, Trace_Misc):
//      PowersOf, GenerateRandomPoints, PrecompPoint with every window size, the extended-coordinate helpers,
//      trusted compressed decoding, IsOnCurve, uncompressed affine I/O, proof equality, and the scalar-field
//      conversion / inspection helpers ----

type miscCase struct {
	Kind string `json:"kind"`
	N    int    `json:"n"`
	W    int    `json:"w"`
	Val  string `json:"val"`
	Val2 string `json:"val2"`
	Rep  int    `json:"rep"`
}

func fpXY(p *bandersnatch.PointAffine) [][]int { return [][]int{fpReg(&p.X), fpReg(&p.Y)} }

func catch(e ev, f func()) {
	defer func() {
		if r := recover(); r != nil {
			e["panic"] = fmt.Sprint(r)
		}
	}()
	f()
}

// a valid element for the misc cases: class names of the group family's sources
func miscPoint(cfg *ipa.IPAConfig, cls string, rnd *prg) banderwagon.Element {
	switch cls {
	case "gen":
		return banderwagon.Generator
	case "id":
		return banderwagon.Identity
	case "idtors": // the other representative of the identity, (0, -1)
		var one, m fp.Element
		one.SetOne()
		m.Neg(&one)
		return banderwagon.VerifFromCoords(fp.Element{}, m, one)
	case "srs0":
		return cfg.SRS[0]
	case "srs255":
		return cfg.SRS[255]
	case "yhalf":
		c := decCase{Fn: "SetBytesUncompressed", Cls: "yhalf"}
		buf := (&driver{seed: rnd.intn(1 << 20)}).decodeInput(&c, rnd.intn(30))
		return banderwagon.VerifFromCoords(fpFromBig(new(big.Int).SetBytes(buf[:32])), fpFromBig(new(big.Int).SetBytes(buf[32:])), fpFromBig(big.NewInt(1)))
	default:
		var e banderwagon.Element
		s := rnd.fr()
		e.ScalarMul(&cfg.SRS[rnd.intn(256)], &s)
		return e
	}
}

func (d *driver) runMiscCase(w emitter, k int, c *miscCase) {
	cfg := getConf()
	rnd := newPrg("misc", d.seed, k, c.Kind, c.Val, c.Rep)
	e := ev{"ev": "misc", "k": k, "kind": c.Kind, "n": c.N, "w": c.W, "val": c.Val, "val2": c.Val2}
	switch c.Kind {
	case "powers":
		x := frFromBig(scalarClass(c.Val, rnd))
		e["x"] = frReg(&x)
		catch(e, func() {
			out := common.PowersOf(x, c.N)
			e["out"] = vecReg(out)
		})
	case "crs":
		catch(e, func() {
			pts := ipa.GenerateRandomPoints(uint64(c.N))
			out := make([][][]int, len(pts))
			for i := range pts {
				out[i] = affXY(&pts[i])
			}
			e["out"] = out
			// the configuration's basis is the first 256 of them
			same := len(pts) <= 256
			for i := 0; same && i < len(pts); i++ {
				same = pts[i].Equal(&cfg.SRS[i])
			}
			e["prefix_of_srs"] = same
		})
	case "precomp":
		P := miscPoint(cfg, c.Val, rnd)
		s := scalarClass(c.Val2, rnd)
		e["pt"] = affXY(&P)
		e["s"] = limbsOfBig(s)
		catch(e, func() {
			pp, err := banderwagon.NewPrecompPoint(P, c.W)
			e["err"] = err != nil
			if err != nil {
				return
			}
			res := bandersnatch.IdentityExt
			pp.ScalarMul(frFromBig(s), &res)
			e["ext"] = [][]int{fpReg(&res.X), fpReg(&res.Y), fpReg(&res.Z), fpReg(&res.T)}
		})
	case "ext":
		// PointExtendedFromProj on a rescaled representation, Neg and ExtendedAddNormalized against a normalised operand
		P := applyRep(miscPoint(cfg, c.Val, rnd), []string{"norm", "proj", "flip", "projflip"}[c.Rep%4], rnd)
		Q := miscPoint(cfg, c.Val2, rnd)
		px, py, pz := banderwagon.VerifCoords(&P)
		e["p"] = [][]int{fpReg(&px), fpReg(&py), fpReg(&pz)}
		e["q"] = affXY(&Q)
		catch(e, func() {
			pe := bandersnatch.PointExtendedFromProj(&bandersnatch.PointProj{X: px, Y: py, Z: pz})
			e["pext"] = [][]int{fpReg(&pe.X), fpReg(&pe.Y), fpReg(&pe.Z), fpReg(&pe.T)}
			qa := affineOf(&Q)
			var qt fp.Element
			qt.Mul(&qa.X, &qa.Y)
			qn := bandersnatch.PointExtendedNormalized{X: qa.X, Y: qa.Y, T: qt}
			var neg bandersnatch.PointExtendedNormalized
			neg.Neg(&qn)
			e["qneg"] = [][]int{fpReg(&neg.X), fpReg(&neg.Y), fpReg(&neg.T)}
			var sum bandersnatch.PointExtended
			bandersnatch.ExtendedAddNormalized(&sum, &pe, &qn)
			e["sum"] = [][]int{fpReg(&sum.X), fpReg(&sum.Y), fpReg(&sum.Z), fpReg(&sum.T)}
			// receiver aliasing the first operand, as PrecompPoint.ScalarMul uses it
			acc := pe
			bandersnatch.ExtendedAddNormalized(&acc, &acc, &qn)
			e["sum_alias"] = [][]int{fpReg(&acc.X), fpReg(&acc.Y), fpReg(&acc.Z), fpReg(&acc.T)}
		})
	case "unsafe":
		dc := decCase{Fn: "SetBytes", Cls: c.Val}
		buf := d.decodeInput(&dc, c.Rep)
		e["buf"] = bytesToInts(buf)
		before := append([]byte(nil), buf...)
		catch(e, func() {
			var p banderwagon.Element
			err := p.SetBytesUnsafe(buf)
			e["err"] = err != nil
			if err == nil {
				e["out"] = coords(&p)
			}
		})
		e["buf_unchanged"] = bytes.Equal(before, buf)
	case "oncurve":
		var p banderwagon.Element
		switch c.Val {
		case "zero":
			p = banderwagon.Element{}
		case "inf":
			x, y, _ := banderwagon.VerifCoords(&cfg.SRS[3])
			p = banderwagon.VerifFromCoords(x, y, fp.Element{})
		case "offcurve":
			x, y, z := banderwagon.VerifCoords(&cfg.SRS[3])
			var one fp.Element
			one.SetOne()
			y.Add(&y, &one)
			p = banderwagon.VerifFromCoords(x, y, z)
		case "nonsubgroup":
			dc := decCase{Fn: "SetBytesUncompressed", Cls: "nonsubgroup"}
			buf := d.decodeInput(&dc, c.Rep)
			p = banderwagon.VerifFromCoords(fpFromBig(new(big.Int).SetBytes(buf[:32])), fpFromBig(new(big.Int).SetBytes(buf[32:])), fpFromBig(big.NewInt(1)))
		default:
			p = applyRep(miscPoint(cfg, c.Val, rnd), []string{"norm", "proj", "flip", "projflip"}[c.Rep%4], rnd)
		}
		e["p"] = coords(&p)
		catch(e, func() { e["out"] = p.IsOnCurve() })
	case "uncio":
		P := miscPoint(cfg, c.Val, rnd)
		a := affineOf(&P)
		e["pt"] = fpXY(&a)
		catch(e, func() {
			var buf bytes.Buffer
			n, err := bandersnatch.WriteUncompressedPoint(&buf, &a)
			e["n"] = n
			e["werr"] = err != nil
			e["bytes"] = bytesToInts(buf.Bytes())
			back, rerr := bandersnatch.ReadUncompressedPoint(bytes.NewReader(buf.Bytes()))
			e["rerr"] = rerr != nil
			e["back"] = fpXY(&back)
			// reading reduces each coordinate: offer x + p where that still fits 32 bytes
			raw := append([]byte(nil), buf.Bytes()...)
			xp := new(big.Int).Add(new(big.Int).SetBytes(raw[:32]), modP)
			if xp.BitLen() <= 256 {
				copy(raw[:32], xp.FillBytes(make([]byte, 32)))
			}
			e["raw2"] = bytesToInts(raw)
			back2, rerr2 := bandersnatch.ReadUncompressedPoint(bytes.NewReader(raw))
			e["rerr2"] = rerr2 != nil
			e["back2"] = fpXY(&back2)
			_, rerr3 := bandersnatch.ReadUncompressedPoint(bytes.NewReader(raw[:63]))
			e["short_err"] = rerr3 != nil
		})
	case "proofeq":
		// two honest proofs (same / different statements), and one of them with a single component replaced or re-represented
		mk := func(seed int) *multiproof.MultiProof {
			r := newPrg("misc-proof", d.seed, seed)
			f := polyClass("small", seed, r)
			cm := cfg.Commit(f)
			tr := common.NewTranscript("eq")
			p, err := multiproof.CreateMultiProof(tr, cfg, []*banderwagon.Element{&cm}, [][]fr.Element{f}, []uint8{uint8(seed)})
			if err != nil {
				panic(err)
			}
			return p
		}
		a, b := mk(1), mk(1)
		switch c.Val {
		case "same":
		case "other":
			b = mk(2)
		case "D":
			b.D.Add(&b.D, &banderwagon.Generator)
		case "Dproj":
			b.D = applyRep(b.D, "projflip", rnd)
		case "L":
			b.IPA.L[c.N%8].Add(&b.IPA.L[c.N%8], &banderwagon.Generator)
		case "Lproj":
			b.IPA.L[c.N%8] = applyRep(b.IPA.L[c.N%8], "proj", rnd)
		case "R":
			b.IPA.R[c.N%8].Add(&b.IPA.R[c.N%8], &banderwagon.Generator)
		case "a":
			one := fr.One()
			b.IPA.A_scalar.Add(&b.IPA.A_scalar, &one)
		case "lenL":
			b.IPA.L = b.IPA.L[:7]
		case "lenR":
			b.IPA.R = b.IPA.R[:7]
		case "swapLR":
			b.IPA.L, b.IPA.R = b.IPA.R, b.IPA.L
		}
		var ba, bb bytes.Buffer
		e["pa"], e["pb"] = proofJSON(a), proofJSON(b)
		catch(e, func() {
			e["equal"] = a.Equal(*b)
			e["equal_sym"] = b.Equal(*a)
			e["ipa_equal"] = a.IPA.Equal(b.IPA)
			if len(b.IPA.L) == 8 && len(b.IPA.R) == 8 {
				a.Write(&ba)
				b.Write(&bb)
				e["bytes_equal"] = bytes.Equal(ba.Bytes(), bb.Bytes())
			}
		})
	case "fr":
		d.miscFr(e, c, rnd)
	default:
		panic("unknown misc kind " + c.Kind)
	}
	w.emit(e)
}

// scalar-field helpers: the value classes of the codec cases (C16), all below 2^256
func (d *driver) miscFr(e ev, c *miscCase, rnd *prg) {
	v := codecValue(c.Val2, d, c.Rep)
	if v == nil {
		v = rnd.big(256)
	}
	v.Mod(v, two256)
	e["v"] = limbsOfBig(v)
	red := new(big.Int).Mod(v, modR)
	x := frFromBig(red)
	catch(e, func() {
		switch c.Val {
		case "lex":
			e["out"] = x.LexicographicallyLargest()
		case "cmp":
			y := frFromBig(new(big.Int).Mod(codecValue([]string{"r-1", "0", "r~64", "r~128", "r~192", "rnd", "2^63", "2^64-1", "255", "2^127", "2^128-1", "2^191", "1"}[c.Rep%13], d, c.Rep+1), modR))
			e["y"] = frReg(&y)
			e["out"] = x.Cmp(&y)
		case "bit":
			// raw words: Bit, IsUint64 and BitLen look at the stored (Montgomery) words
			raw := fr.Element(wordsOfBig(v))
			bits := make([]int, 0, 300)
			for i := uint64(0); i < 300; i++ {
				bits = append(bits, int(raw.Bit(i)))
			}
			e["bits"] = bits
			e["isuint64"] = raw.IsUint64()
			e["bitlen"] = raw.BitLen()
		case "bigint":
			var out, reg big.Int
			x.ToBigInt(&out)
			x.ToBigIntRegular(&reg)
			e["raw"] = limbsOfBig(&out)
			e["reg"] = limbsOfBig(&reg)
			e["words"] = frRaw(&x)
			// SetBigInt of the unreduced value, of its negative, and of a value beyond 2^256
			// receivers that already hold a value
			s1, s2, s3 := frFromBig(big.NewInt(-7)), frFromBig(big.NewInt(-8)), frFromBig(big.NewInt(-9))
			s1.SetBigInt(v)
			s2.SetBigInt(new(big.Int).Neg(v))
			big3 := new(big.Int).Add(new(big.Int).Lsh(v, 70), v)
			s3.SetBigInt(big3)
			e["set"] = frReg(&s1)
			e["setneg"] = frReg(&s2)
			e["big3"] = limbsOfBig(big3)
			e["set3"] = frReg(&s3)
		case "string":
			str := x.String()
			e["str"] = str
			back, neg := frFromBig(big.NewInt(-7)), frFromBig(big.NewInt(-8))
			back.SetString(v.String())
			neg.SetString("-" + v.String())
			e["dec"] = v.String()
			e["back"] = frReg(&back)
			e["backneg"] = frReg(&neg)
		case "iface":
			outs := map[string][]int{}
			errs := map[string]bool{}
			try := func(name string, arg interface{}) {
				z := frFromBig(big.NewInt(-11))
				_, err := z.SetInterface(arg)
				errs[name] = err != nil
				if err == nil {
					outs[name] = frReg(&z)
				} else {
					outs[name] = []int{}
				}
			}
			try("element", x)
			try("pointer", &x)
			try("uint64", v.Uint64())
			try("int", int(v.Int64()&0x7fffffff))
			try("string", v.String())
			try("bigptr", v)
			try("big", *v)
			try("bytes", v.FillBytes(make([]byte, 32)))
			try("float", 1.5)
			e["outs"] = outs
			e["errs"] = errs
			e["u64"] = limbsOfBig(new(big.Int).SetUint64(v.Uint64()))
			e["i31"] = limbsOfBig(big.NewInt(v.Int64() & 0x7fffffff))
		case "random":
			var a, b fr.Element
			_, err1 := a.SetRandom()
			_, err2 := b.SetRandom()
			e["err"] = err1 != nil || err2 != nil
			e["a_words"] = frRaw(&a)
			e["b_words"] = frRaw(&b)
		}
	})
}
