package main

import (
	"bytes"
	"encoding/json"
	"errors"
	"fmt"
	"io"
	"math/big"
	"runtime"
	"sort"
	"strings"
	"sync"
	"time"

	multiproof "github.com/crate-crypto/go-ipa"
	"github.com/crate-crypto/go-ipa/bandersnatch/fr"
	"github.com/crate-crypto/go-ipa/banderwagon"
	"github.com/crate-crypto/go-ipa/common"
	"github.com/crate-crypto/go-ipa/ipa"
)

// ---- family "proof": multiproof / IPA prove, verify, perturbations, (de)serialisation (C01-C04, C10) ----

type polySpec struct {
	Cls string `json:"cls"`
	J   int    `json:"j"`
}
type openSpec struct {
	P     int    `json:"p"`     // index into polys
	Z     int    `json:"z"`     // evaluation index
	Share int    `json:"share"` // 0: own element object; k>0: share the pointer of opening k (1-based, earlier)
	Rep   string `json:"rep"`   // norm | proj | flip | projflip
}
type perturbSpec struct {
	What string `json:"what"` // C z y D L R a swap drop dup label lenL lenR lenC lenZ lenY zero splice none repC repD repL
	I    int    `json:"i"`
	To   string `json:"to"`
}
type proofProg struct {
	Kind    string        `json:"kind"` // mp | ipa | read | write
	Label   string        `json:"label"`
	Polys   []polySpec    `json:"polys"`
	Ops     []openSpec    `json:"ops"`
	Perturb []perturbSpec `json:"perturb"`
	Arrival string        `json:"arrival"` // "": free; rev | rot | evenodd: forced arrival order of the grouping workers
	// ipa
	Poly    polySpec `json:"poly"`
	Point   string   `json:"point"`
	Results []string `json:"results"`
	// read / write
	Src    string `json:"src"`
	Bytes  string `json:"bytes"`
	Reader string `json:"reader"`
	Pos    int    `json:"pos"`
	Fault  int    `json:"fault"`
}

var gateMu sync.RWMutex

type gateCtl struct {
	mode     string
	mu       sync.Mutex
	waiting  map[int]chan struct{} // batch start -> release channel
	sentCh   chan int
	done     chan struct{}
	observed []int
	inOrder  bool
	batches  [][]int // (start, end) of every worker as passed to the gate
}

func newGateCtl(mode string) *gateCtl {
	return &gateCtl{mode: mode, waiting: map[int]chan struct{}{}, sentCh: make(chan int, 1024), done: make(chan struct{}), inOrder: true}
}
func (g *gateCtl) gate(start, end int) {
	ch := make(chan struct{})
	g.mu.Lock()
	g.waiting[start] = ch
	g.batches = append(g.batches, []int{start, end})
	g.mu.Unlock()
	select {
	case <-ch:
	case <-g.done:
	}
}
func (g *gateCtl) sent(start, end int) { g.sentCh <- start }
func (g *gateCtl) stop()               { close(g.done) }

// permutation of the sorted batch starts
func (g *gateCtl) order(starts []int) []int {
	sort.Ints(starts)
	n := len(starts)
	out := make([]int, 0, n)
	switch g.mode {
	case "rev":
		for i := n - 1; i >= 0; i-- {
			out = append(out, starts[i])
		}
	case "rot":
		for i := 0; i < n; i++ {
			out = append(out, starts[(i+n/2+1)%n])
		}
	default: // evenodd: odd positions first
		for i := 1; i < n; i += 2 {
			out = append(out, starts[i])
		}
		for i := 0; i < n; i += 2 {
			out = append(out, starts[i])
		}
	}
	return out
}
func (g *gateCtl) run() {
	last, stable := -1, 0
	for {
		select {
		case <-g.done:
			return
		case <-time.After(2 * time.Millisecond):
		}
		g.mu.Lock()
		n := len(g.waiting)
		g.mu.Unlock()
		if n == 0 {
			last, stable = -1, 0
			continue
		}
		if n == last {
			stable++
		} else {
			last, stable = n, 0
		}
		if stable < 5 && n < runtime.NumCPU() {
			continue
		}
		g.mu.Lock()
		starts := make([]int, 0, len(g.waiting))
		for s := range g.waiting {
			starts = append(starts, s)
		}
		g.mu.Unlock()
		for _, s := range g.order(starts) {
			g.mu.Lock()
			ch := g.waiting[s]
			delete(g.waiting, s)
			g.mu.Unlock()
			close(ch)
			select {
			case got := <-g.sentCh:
				g.observed = append(g.observed, got)
				if got != s {
					g.inOrder = false
				}
			case <-time.After(20 * time.Second):
				g.inOrder = false
			case <-g.done:
				return
			}
		}
		last, stable = -1, 0
	}
}

func applyRep(e banderwagon.Element, rep string, p *prg) banderwagon.Element {
	switch rep {
	case "proj":
		z := p.big(200)
		z.Add(z, big.NewInt(2))
		return rescaled(e, z, false)
	case "flip":
		return rescaled(e, big.NewInt(1), true)
	case "projflip":
		z := p.big(200)
		z.Add(z, big.NewInt(2))
		return rescaled(e, z, true)
	}
	return e
}

func elemList(es []*banderwagon.Element) [][][]int {
	out := make([][][]int, len(es))
	for i, e := range es {
		out[i] = coords(e)
	}
	return out
}
func elemListV(es []banderwagon.Element) [][][]int {
	out := make([][][]int, len(es))
	for i := range es {
		out[i] = coords(&es[i])
	}
	return out
}
func frPtrList(ys []*fr.Element) [][]int {
	out := make([][]int, len(ys))
	for i, y := range ys {
		out[i] = frReg(y)
	}
	return out
}

func proofJSON(p *multiproof.MultiProof) ev {
	return ev{"D": coords(&p.D), "L": elemListV(p.IPA.L), "R": elemListV(p.IPA.R), "a": frReg(&p.IPA.A_scalar)}
}
func ipaJSON(p *ipa.IPAProof) ev {
	return ev{"L": elemListV(p.L), "R": elemListV(p.R), "a": frReg(&p.A_scalar)}
}

func cloneProof(p *multiproof.MultiProof) *multiproof.MultiProof {
	q := &multiproof.MultiProof{D: p.D}
	q.IPA.L = append([]banderwagon.Element(nil), p.IPA.L...)
	q.IPA.R = append([]banderwagon.Element(nil), p.IPA.R...)
	q.IPA.A_scalar = p.IPA.A_scalar
	return q
}

func (d *driver) runProofProgram(w emitter, pid int, line []byte) {
	var pr proofProg
	if err := json.Unmarshal(line, &pr); err != nil {
		panic(fmt.Sprintf("bad proof program %d: %v", pid, err))
	}
	switch pr.Kind {
	case "mp":
		d.runMultiproof(w, pid, &pr)
	case "ipa":
		d.runIPA(w, pid, &pr)
	case "read", "write":
		d.runCodec(w, pid, &pr)
	default:
		panic("unknown proof program kind " + pr.Kind)
	}
}

func (d *driver) runMultiproof(w emitter, pid int, pr *proofProg) {
	cfg := getConf()
	rnd := newPrg("mp", d.seed, pid)
	// keep only the polynomials some opening uses (re-indexed)
	{
		used := map[int]int{}
		var tab []polySpec
		for i := range pr.Ops {
			p := pr.Ops[i].P
			if _, ok := used[p]; !ok {
				used[p] = len(tab)
				tab = append(tab, pr.Polys[p])
			}
			pr.Ops[i].P = used[p]
		}
		pr.Polys = tab
	}
	polys := make([][]fr.Element, len(pr.Polys))
	commits := make([]banderwagon.Element, len(pr.Polys))
	for i, ps := range pr.Polys {
		polys[i] = polyClass(ps.Cls, ps.J, newPrg("mp-poly", d.seed, ps.Cls, ps.J))
		commits[i] = cfg.Commit(polys[i])
	}
	n := len(pr.Ops)
	Cs := make([]*banderwagon.Element, n)
	fs := make([][]fr.Element, n)
	zs := make([]uint8, n)
	ys := make([]*fr.Element, n)
	for i, o := range pr.Ops {
		if o.Share > 0 && o.Share <= i && pr.Ops[o.Share-1].P == o.P {
			Cs[i] = Cs[o.Share-1] // the very same pointer
		} else {
			c := applyRep(commits[o.P], o.Rep, rnd)
			Cs[i] = &c
		}
		fs[i] = polys[o.P]
		zs[i] = uint8(o.Z)
		if o.Share > 0 {
			// the calling pattern of the repository's own fuzz tests and benchmark: the claimed value is a pointer INTO the polynomial
			// (so openings of the same polynomial at the same index share one pointer, and ys aliases fs)
			ys[i] = &polys[o.P][o.Z]
		} else {
			y := polys[o.P][o.Z]
			ys[i] = &y
		}
	}
	round := func() {
		polyTab := make([][][]int, len(polys))
		for i := range polys {
			polyTab[i] = vecReg(polys[i])
		}
		pidx := make([]int, n)
		zz := make([]int, n)
		for i, o := range pr.Ops {
			pidx[i] = o.P
			zz[i] = o.Z
		}
		csBefore := elemList(Cs)
		fsBefore := make([][]fr.Element, len(polys))
		for i := range polys {
			fsBefore[i] = append([]fr.Element(nil), polys[i]...)
		}
		label := pr.Label
		if pid%2 == 1 {
			failingProverCalls(cfg, pid)
		}
		// ---- prove
		e := ev{"ev": "prove", "prog": pid, "label": bytesToInts([]byte(label)), "polys": polyTab, "pidx": pidx, "zs": zz, "cs_before": csBefore,
			"numcpu": runtime.NumCPU(), "gomaxprocs": runtime.GOMAXPROCS(0)}
		ptr := common.NewTranscript(label)
		var proof *multiproof.MultiProof
		var err error
		var ctl *gateCtl
		if pr.Arrival == "" {
			gateMu.RLock()
		} else {
			// Force the order in which the grouping workers hand over their results.  The controller makes no
			// assumption about how the library splits the openings among workers: workers register at the gate and
			// block; whenever the set of registered workers has been stable for a moment (or is complete), the
			// controller releases them one at a time in the requested permutation of their batch starts, waiting for
			// each hand-over to complete.  Workers that register later are handled in the next round.
			gateMu.Lock()
			ctl = newGateCtl(pr.Arrival)
			multiproof.VerifGroupGate = ctl.gate
			multiproof.VerifGroupSent = ctl.sent
			go ctl.run()
		}
		func() {
			defer func() {
				if r := recover(); r != nil {
					e["panic"] = fmt.Sprint(r)
				}
			}()
			var g tailGuard
			gsent := cfg.SRS[9]
			gCs, gzs := guardSlice(&g, Cs, &gsent), guardSlice(&g, zs, uint8(0xa5))
			// the polynomials too (slices shared between openings stay shared)
			var fsent fr.Element
			fsent.SetUint64(0xdecaf)
			gfs := make([][]fr.Element, len(fs))
			firstOf := map[*fr.Element]int{}
			for i := range fs {
				if len(fs[i]) == 0 {
					gfs[i] = fs[i]
					continue
				}
				if j, ok := firstOf[&fs[i][0]]; ok {
					gfs[i] = gfs[j]
					continue
				}
				firstOf[&fs[i][0]] = i
				gfs[i] = guardSlice(&g, fs[i], fsent)
			}
			mustReturn(fmt.Sprintf("CreateMultiProof with %d openings", len(gCs)), func() {
				proof, err = multiproof.CreateMultiProof(ptr, cfg, gCs, gfs, gzs)
			})
			for i := range fs {
				copy(fs[i], gfs[i])
			}
			copy(Cs, gCs) // writes through the guarded copies are reported like writes to the originals
			copy(zs, gzs)
			e["tails_unchanged"] = g.ok()
		}()
		if pr.Arrival == "" {
			gateMu.RUnlock()
		} else {
			ctl.stop()
			multiproof.VerifGroupGate, multiproof.VerifGroupSent = nil, nil
			gateMu.Unlock()
			e["arrival_forced"] = pr.Arrival
			e["arrival_observed"] = ctl.observed
			e["arrival_ok"] = ctl.inOrder
			sort.Slice(ctl.batches, func(i, j int) bool { return ctl.batches[i][0] < ctl.batches[j][0] })
			e["batches"] = ctl.batches
		}
		e["err"] = err != nil
		e["cs_after"] = elemList(Cs)
		same := true
		for i := range polys {
			for j := range polys[i] {
				if polys[i][j] != fsBefore[i][j] {
					same = false
				}
			}
		}
		for i, o := range pr.Ops {
			if int(zs[i]) != o.Z {
				same = false
			}
		}
		e["inputs_unchanged"] = same
		if err != nil || e["panic"] != nil || proof == nil {
			if err != nil {
				e["errmsg"] = err.Error()
			}
			w.emit(e)
			return
		}
		var buf bytes.Buffer
		werr := proof.Write(&buf)
		e["write_err"] = werr != nil
		e["bytes"] = bytesToInts(buf.Bytes())
		pc := ptr.ChallengeScalar([]byte("state"))
		e["next"] = frReg(&pc)
		e["proof"] = proofJSON(proof)
		w.emit(e)

		// ---- verify: honest, then every perturbation
		verify := func(k int, what perturbSpec, lbl string, pf *multiproof.MultiProof, cs []*banderwagon.Element, yv []*fr.Element, zv []uint8) {
			ve := ev{"ev": "verify", "prog": pid, "k": k, "what": what.What, "i": what.I, "to": what.To, "label": bytesToInts([]byte(lbl)),
				"cs": elemList(cs), "ys": frPtrList(yv), "zs": bytesToInts(zv), "proof": proofJSON(pf)}
			csB := elemList(cs)
			pfB := cloneProof(pf)
			ysB := frPtrList(yv)
			vtr := common.NewTranscript(lbl)
			var ok bool
			var verr error
			func() {
				defer func() {
					if r := recover(); r != nil {
						ve["panic"] = fmt.Sprint(r)
					}
				}()
				// every slice handed over is the front of a larger array with sentinels behind it
				var g tailGuard
				sent := cfg.SRS[9]
				var ysent fr.Element
				ysent.SetUint64(0xdecaf)
				pg := &multiproof.MultiProof{D: pf.D}
				pg.IPA.L, pg.IPA.R, pg.IPA.A_scalar = guardSlice(&g, pf.IPA.L, sent), guardSlice(&g, pf.IPA.R, sent), pf.IPA.A_scalar
				gcs, gyv, gzv := guardSlice(&g, cs, &sent), guardSlice(&g, yv, &ysent), guardSlice(&g, zv, uint8(0xa5))
				mustReturn(fmt.Sprintf("CheckMultiProof with %d openings", len(gcs)), func() {
					ok, verr = multiproof.CheckMultiProof(vtr, cfg, pg, gcs, gyv, gzv)
				})
				copy(cs, gcs)
				copy(yv, gyv)
				copy(zv, gzv)
				ve["tails_unchanged"] = g.ok()
				// writes through the guarded copies are reported like writes to the originals
				copy(pf.IPA.L, pg.IPA.L)
				copy(pf.IPA.R, pg.IPA.R)
				pf.D, pf.IPA.A_scalar = pg.D, pg.IPA.A_scalar
			}()
			ve["ok"] = ok
			ve["err"] = verr != nil
			if ve["panic"] == nil {
				vc := vtr.ChallengeScalar([]byte("state"))
				ve["next"] = frReg(&vc)
			}
			// purity of the verifier's inputs
			a, _ := json.Marshal(csB)
			b, _ := json.Marshal(elemList(cs))
			c1, _ := json.Marshal(proofJSON(pfB))
			c2, _ := json.Marshal(proofJSON(pf))
			y1, _ := json.Marshal(ysB)
			y2, _ := json.Marshal(frPtrList(yv))
			ve["inputs_unchanged"] = bytes.Equal(a, b) && bytes.Equal(c1, c2) && bytes.Equal(y1, y2)
			w.emit(ve)
		}
		verify(0, perturbSpec{What: "none"}, label, proof, Cs, ys, zs)
		// the prover has normalised the commitments (Z = 1): the verifier also has to be right on other representatives of the same
		// elements.  Every third program: random projective / flipped representatives; every third: STRUCTURED Z coordinates whose
		// product over the list is one although hardly any is one (reciprocal pairs, a compensating last element) - the honest
		// statement must be accepted again, with the same transcript state
		if mode := pid % 3; mode != 2 && n >= 1 {
			rerepresent(Cs, mode == 1, rnd)
			verify(50, perturbSpec{What: "none", To: []string{"rerep", "zprod"}[mode]}, label, proof, Cs, ys, zs)
		}
		if len(pr.Perturb) == 0 && n <= 40 {
			// a verification that ERRORS (seven L points, then none at all), then the honest statement once more: whatever the failing
			// calls leave behind must not change the honest verdict
			bad := cloneProof(proof)
			bad.IPA.L = bad.IPA.L[:7]
			verify(1, perturbSpec{What: "lenL", To: "short"}, label, bad, Cs, ys, zs)
			bad2 := cloneProof(proof)
			bad2.IPA.L, bad2.IPA.R = nil, nil
			verify(2, perturbSpec{What: "lenLR", To: "empty"}, label, bad2, Cs, ys, zs)
			verify(3, perturbSpec{What: "none"}, label, proof, Cs, ys, zs)
		}

		// a second honest proof for splices (different label)
		var proof2 *multiproof.MultiProof
		for k, pt := range pr.Perturb {
			cs := append([]*banderwagon.Element(nil), Cs...)
			yv := make([]*fr.Element, n)
			for i := range ys {
				c := *ys[i]
				yv[i] = &c
			}
			zv := append([]uint8(nil), zs...)
			pf := cloneProof(proof)
			lbl := label
			i := 0
			if n > 0 {
				i = pt.I % n
			}
			j := pt.I % 8
			otherPoint := func(e banderwagon.Element) banderwagon.Element {
				switch pt.To {
				case "+G":
					var t banderwagon.Element
					t.Add(&e, &banderwagon.Generator)
					return t
				case "id":
					return banderwagon.Identity
				case "neg":
					var t banderwagon.Element
					t.Neg(&e)
					return t
				case "proj":
					return applyRep(e, "proj", rnd)
				case "flip":
					return applyRep(e, "flip", rnd)
				default:
					var t banderwagon.Element
					t.Double(&e)
					return t
				}
			}
			otherScalar := func(s fr.Element) fr.Element {
				one := fr.One()
				switch pt.To {
				case "+1":
					var t fr.Element
					t.Add(&s, &one)
					return t
				case "0":
					return fr.Zero()
				case "r-1":
					return fr.MinusOne()
				default:
					return rnd.fr()
				}
			}
			switch pt.What {
			case "C":
				c := otherPoint(*cs[i])
				cs[i] = &c
			case "Cother":
				cs[i] = Cs[(i+1)%n]
			case "z":
				if pt.To == "other" {
					zv[i] = zs[(i+1)%n]
				} else {
					zv[i] = zv[i] + 1
				}
			case "y":
				if pt.To == "other" {
					c := *ys[(i+1)%n]
					yv[i] = &c
				} else {
					c := otherScalar(*yv[i])
					yv[i] = &c
				}
			case "D":
				if pt.To == "L1" {
					pf.D = pf.IPA.L[0]
				} else {
					pf.D = otherPoint(pf.D)
				}
			case "L":
				if pt.To == "R" {
					pf.IPA.L[j], pf.IPA.R[j] = pf.IPA.R[j], pf.IPA.L[j]
				} else if pt.To == "Lnext" {
					pf.IPA.L[j], pf.IPA.L[(j+1)%8] = pf.IPA.L[(j+1)%8], pf.IPA.L[j]
				} else {
					pf.IPA.L[j] = otherPoint(pf.IPA.L[j])
				}
			case "R":
				pf.IPA.R[j] = otherPoint(pf.IPA.R[j])
			case "a":
				pf.IPA.A_scalar = otherScalar(pf.IPA.A_scalar)
			case "swap":
				if n >= 2 {
					k2 := (i + 1) % n
					cs[i], cs[k2] = cs[k2], cs[i]
					yv[i], yv[k2] = yv[k2], yv[i]
					zv[i], zv[k2] = zv[k2], zv[i]
				}
			case "drop":
				cs, yv, zv = cs[:n-1], yv[:n-1], zv[:n-1]
			case "dup":
				cs, yv, zv = append(cs, cs[i]), append(yv, yv[i]), append(zv, zv[i])
			case "label":
				lbl = label + "'"
			case "lenL":
				if pt.To == "short" {
					pf.IPA.L = pf.IPA.L[:7]
				} else {
					pf.IPA.L = append(pf.IPA.L, pf.IPA.L[0])
				}
			case "lenLR":
				if pt.To == "short" {
					pf.IPA.L, pf.IPA.R = pf.IPA.L[:7], pf.IPA.R[:7]
				} else if pt.To == "empty" {
					pf.IPA.L, pf.IPA.R = nil, nil
				} else {
					pf.IPA.L, pf.IPA.R = append(pf.IPA.L, pf.IPA.L[0]), append(pf.IPA.R, pf.IPA.R[0])
				}
			case "lenR":
				pf.IPA.R = pf.IPA.R[:7]
			case "lenC":
				cs = cs[:n-1]
			case "lenY":
				yv = yv[:n-1]
			case "lenZ":
				zv = zv[:n-1]
			case "zero":
				cs, yv, zv = nil, nil, nil
			case "splice":
				if proof2 == nil {
					t2 := common.NewTranscript(label + "-second")
					cs2 := append([]*banderwagon.Element(nil), Cs...)
					p2, e2 := multiproof.CreateMultiProof(t2, cfg, cs2, fs, zs)
					if e2 != nil {
						continue
					}
					proof2 = p2
				}
				if pt.To == "ipa" {
					pf.IPA = cloneProof(proof2).IPA
				} else {
					pf.D = proof2.D
				}
			case "fake":
				// a proof created for a DIFFERENT polynomial than the one committed to by Cs[i], with the matching claimed value
				fs2 := append([][]fr.Element(nil), fs...)
				if pt.To == "zero" {
					fs2[i] = make([]fr.Element, 256)
				} else {
					g := append([]fr.Element(nil), fs[i]...)
					one := fr.One()
					g[(int(zs[i])+1)%256].Add(&g[(int(zs[i])+1)%256], &one)
					if pt.To == "atz" {
						g[zs[i]].Add(&g[zs[i]], &one)
					}
					fs2[i] = g
				}
				cs2 := make([]*banderwagon.Element, n)
				for j := range cs {
					c := *cs[j]
					cs2[j] = &c
				}
				t2 := common.NewTranscript(label)
				p2, e2 := multiproof.CreateMultiProof(t2, cfg, cs2, fs2, zs)
				if e2 != nil {
					continue
				}
				pf = p2
				y2 := fs2[i][zs[i]]
				yv[i] = &y2
			case "forge":
				// an adversarial prover (forgeProof below): it absorbs the statement exactly as the verifier will, lies about one
				// claimed value, and builds g, h and the IPA proof as if the verifier ignored that claim
				use := make([]bool, n)
				for j := range use {
					use[j] = true
				}
				lie := -1
				eOwn := false
				switch pt.To {
				case "dupy", "dupy_first": // a repeated (commitment pointer, index) query: lie about the later (the first) occurrence, prove both as the true value
					for a := 0; a < n && lie < 0; a++ {
						for b := a + 1; b < n; b++ {
							if cs[a] == cs[b] && zv[a] == zv[b] {
								lie = b
								if pt.To == "dupy_first" {
									lie = a
								}
								break
							}
						}
					}
				case "idlie": // lie about the value of an opening whose commitment is the identity (the zero polynomial), prove it as the zero polynomial
					for a := 0; a < n; a++ {
						if cs[a].Equal(&banderwagon.Identity) {
							lie = a
							break
						}
					}
				case "drop0", "droplast", "dropz": // lie about one opening and leave it (all openings at its index) out of g, h and E
					lie = 0
					if pt.To == "droplast" {
						lie = n - 1
					}
					use[lie] = false
					if pt.To == "dropz" {
						for j := range use {
							if zv[j] == zv[lie] {
								use[j] = false
							}
						}
					}
					eOwn = true
				}
				if lie < 0 {
					continue
				}
				one := fr.One()
				y2 := *yv[lie]
				y2.Add(&y2, &one)
				yv[lie] = &y2
				pf = forgeProof(cfg, lbl, cs, fs, zv, yv, use, eOwn)
				if pf == nil {
					continue
				}
			case "none":
			}
			verify(k+1, pt, lbl, pf, cs, yv, zv)
		}
		if len(pr.Perturb) > 0 {
			// after all that: a verification that errors in the IPA stage, then the honest statement once more (the verdict must not depend on history)
			bad := cloneProof(proof)
			bad.IPA.L = bad.IPA.L[:7]
			verify(len(pr.Perturb)+1, perturbSpec{What: "lenL", To: "short"}, label, bad, Cs, ys, zs)
			verify(len(pr.Perturb)+2, perturbSpec{What: "none"}, label, proof, Cs, ys, zs)
		}
	}
	round()
	// second round on the SAME objects: one polynomial is changed in place, its commitment is recomputed into the same Element
	// variables and the claimed values are updated through the same pointers; nothing may be remembered by pointer identity
	if len(pr.Perturb) == 0 && pr.Arrival == "" && n <= 40 {
		p0 := pr.Ops[0].P
		one := fr.One()
		polys[p0][pr.Ops[0].Z].Add(&polys[p0][pr.Ops[0].Z], &one)
		polys[p0][(pr.Ops[0].Z+101)%256].Add(&polys[p0][(pr.Ops[0].Z+101)%256], &one)
		nc := cfg.Commit(polys[p0])
		for i, o := range pr.Ops {
			if o.P == p0 {
				*Cs[i] = applyRep(nc, o.Rep, rnd)
				*ys[i] = polys[p0][o.Z]
			}
		}
		round()
	}
}

// forgeProof is the adversary's prover, assembled from the library's public pieces: the Fiat-Shamir transcript is fed the STATEMENT
// (commitments, indices and the claimed values ys - true or not) exactly as CheckMultiProof will feed it; g and h are built from the
// polynomials fs over the openings selected by `use`, each treated as opened to its true value; the point absorbed as E is the honest
// verifier's (sum of r^k/(t-z_k) C_k over all openings) or, with eOwn, the commitment to the adversary's own h.
func forgeProof(cfg *ipa.IPAConfig, label string, cs []*banderwagon.Element, fs [][]fr.Element, zs []uint8, ys []*fr.Element, use []bool, eOwn bool) (out *multiproof.MultiProof) {
	defer func() {
		if recover() != nil {
			out = nil
		}
	}()
	L := multiproof.VerifLabels() // C z y D E t r domainsep
	tr := common.NewTranscript(label)
	tr.DomainSep(L[7])
	n := len(cs)
	for k := 0; k < n; k++ {
		c := *cs[k]
		tr.AppendPoint(&c, L[0])
		var z fr.Element
		z.SetUint64(uint64(zs[k]))
		tr.AppendScalar(&z, L[1])
		tr.AppendScalar(ys[k], L[2])
	}
	r := tr.ChallengeScalar(L[6])
	pw := common.PowersOf(r, n)
	g := make([]fr.Element, 256)
	for k := 0; k < n; k++ {
		if !use[k] {
			continue
		}
		q := cfg.PrecomputedWeights.DivideOnDomain(zs[k], fs[k])
		for j := range g {
			var t fr.Element
			t.Mul(&q[j], &pw[k])
			g[j].Add(&g[j], &t)
		}
	}
	D := cfg.Commit(g)
	tr.AppendPoint(&D, L[3])
	t := tr.ChallengeScalar(L[5])
	h := make([]fr.Element, 256)
	var E banderwagon.Element
	E.SetIdentity()
	for k := 0; k < n; k++ {
		var z, den fr.Element
		z.SetUint64(uint64(zs[k]))
		den.Sub(&t, &z)
		den.Inverse(&den)
		den.Mul(&den, &pw[k])
		if use[k] {
			for j := range h {
				var x fr.Element
				x.Mul(&fs[k][j], &den)
				h[j].Add(&h[j], &x)
			}
		}
		var term banderwagon.Element
		term.ScalarMul(cs[k], &den)
		E.Add(&E, &term)
	}
	if eOwn {
		E = cfg.Commit(h)
	}
	tr.AppendPoint(&E, L[4])
	hg := make([]fr.Element, 256)
	for j := range hg {
		hg[j].Sub(&h[j], &g[j])
	}
	var EmD banderwagon.Element
	EmD.Sub(&E, &D)
	ip, err := ipa.CreateIPAProof(tr, cfg, EmD, hg, t)
	if err != nil {
		return nil
	}
	return &multiproof.MultiProof{IPA: ip, D: D}
}

// failingProverCalls: prover calls that return errors (outside what the properties quantify over, but legal calls): a polynomial of the
// wrong length through CreateIPAProof at points inside and outside the domain, mismatched lists and a short polynomial through
// CreateMultiProof, a malformed proof through the IPA verifier.  Whatever they leave behind must not influence the judged calls.
func failingProverCalls(cfg *ipa.IPAConfig, k int) {
	defer func() { recover() }()
	short := make([]fr.Element, 255)
	long := make([]fr.Element, 257)
	for i := range short {
		short[i].SetUint64(uint64(i + 3))
	}
	for i := range long {
		long[i].SetUint64(uint64(i + 5))
	}
	C := cfg.SRS[2]
	for j, z := range []uint64{uint64(k*37+200) % 256, uint64(k*11+7) % 256, 256, 1 << 40} {
		var zf fr.Element
		zf.SetUint64(z)
		for _, f := range [][]fr.Element{short, long, nil} {
			func() {
				defer func() { recover() }()
				_, _ = ipa.CreateIPAProof(common.NewTranscript("failing"), cfg, C, f, zf)
			}()
		}
		func() {
			defer func() { recover() }()
			var bad ipa.IPAProof
			bad.L = make([]banderwagon.Element, 7-j%2)
			bad.R = make([]banderwagon.Element, 7-j%2)
			for i := range bad.L {
				bad.L[i], bad.R[i] = cfg.SRS[i], cfg.SRS[i+9]
			}
			_, _ = ipa.CheckIPAProof(common.NewTranscript("failing"), cfg, C, bad, zf, fr.One())
		}()
	}
	full := make([]fr.Element, 256)
	full[3].SetOne()
	for _, c := range []struct {
		cs []*banderwagon.Element
		fs [][]fr.Element
		zs []uint8
	}{
		{[]*banderwagon.Element{&C, &C}, [][]fr.Element{full}, []uint8{1, 2}},
		{[]*banderwagon.Element{&C}, [][]fr.Element{full}, []uint8{1, 2}},
		{[]*banderwagon.Element{&C, &C}, [][]fr.Element{full, short}, []uint8{uint8(k), 2}},
		{nil, nil, nil},
	} {
		func() {
			defer func() { recover() }()
			_, _ = multiproof.CreateMultiProof(common.NewTranscript("failing"), cfg, c.cs, c.fs, c.zs)
		}()
	}
}

// rerepresent rewrites every distinct element of the list as another representative (lambda*x : lambda*y : lambda), possibly of the class
// twin (-x, -y).  zprod: the lambdas are chosen so that the product of the Z coordinates over the whole LIST is one (the last distinct
// element that occurs once compensates; with fewer than two elements: Z = -1 ... which squares to one over a doubled list).
func rerepresent(cs []*banderwagon.Element, zprod bool, rnd *prg) {
	var distinct []*banderwagon.Element
	mult := map[*banderwagon.Element]int{}
	for _, c := range cs {
		if mult[c] == 0 {
			distinct = append(distinct, c)
		}
		mult[c]++
	}
	set := func(e *banderwagon.Element, lambda *big.Int, flip bool) {
		x, y, z := banderwagon.VerifCoords(e)
		zi := new(big.Int).ModInverse(fpRegBig(&z), modP)
		if zi == nil {
			return
		}
		ax := mulm(fpRegBig(&x), zi)
		ay := mulm(fpRegBig(&y), zi)
		if flip {
			ax.Sub(modP, ax).Mod(ax, modP)
			ay.Sub(modP, ay).Mod(ay, modP)
		}
		*e = banderwagon.VerifFromCoords(fpFromBig(mulm(ax, lambda)), fpFromBig(mulm(ay, lambda)), fpFromBig(lambda))
	}
	comp := -1 // the compensating element: the last one that occurs exactly once
	if zprod {
		for i, c := range distinct {
			if mult[c] == 1 {
				comp = i
			}
		}
	}
	prod := big.NewInt(1)
	for i, c := range distinct {
		if i == comp {
			continue
		}
		l := rnd.big(250)
		l.Add(l, big.NewInt(2))
		if zprod && comp < 0 {
			l = new(big.Int).Sub(modP, big.NewInt(1)) // no element occurs once: every Z = -1
		}
		set(c, l, rnd.intn(2) == 1)
		for k := 0; k < mult[c]; k++ {
			prod = mulm(prod, l)
		}
	}
	if comp >= 0 {
		set(distinct[comp], new(big.Int).ModInverse(prod, modP), rnd.intn(2) == 1)
	}
}

// ---- IPA (C04) ----

func (d *driver) runIPA(w emitter, pid int, pr *proofProg) {
	cfg := getConf()
	rnd := newPrg("ipa", d.seed, pid)
	f := polyClass(pr.Poly.Cls, pr.Poly.J, newPrg("mp-poly", d.seed, pr.Poly.Cls, pr.Poly.J))
	C := cfg.Commit(f)
	pt := pointValue(pr.Point, rnd)
	ptf := frFromBig(pt)
	label := "ipa-" + pr.Label
	fBefore := append([]fr.Element(nil), f...)
	if pid%2 == 1 {
		failingProverCalls(cfg, pid)
	}
	tr := common.NewTranscript(label)
	e := ev{"ev": "ipa_prove", "prog": pid, "label": bytesToInts([]byte(label)), "f": vecReg(f), "c": coords(&C), "point": limbsOfBig(pt), "pcls": pr.Point}
	var proof ipa.IPAProof
	var err error
	func() {
		defer func() {
			if r := recover(); r != nil {
				e["panic"] = fmt.Sprint(r)
			}
		}()
		var g tailGuard
		var fsent fr.Element
		fsent.SetUint64(0xdecaf)
		gf := guardSlice(&g, f, fsent)
		mustReturn("CreateIPAProof", func() { proof, err = ipa.CreateIPAProof(tr, cfg, C, gf, ptf) })
		copy(f, gf)
		e["tails_unchanged"] = g.ok()
	}()
	e["err"] = err != nil
	same := true
	for i := range f {
		if f[i] != fBefore[i] {
			same = false
		}
	}
	e["inputs_unchanged"] = same
	if err != nil || e["panic"] != nil {
		w.emit(e)
		return
	}
	var buf bytes.Buffer
	proof.Write(&buf)
	e["bytes"] = bytesToInts(buf.Bytes())
	pc := tr.ChallengeScalar([]byte("state"))
	e["next"] = frReg(&pc)
	w.emit(e)
	b := ipa.VerifComputeBVector(cfg, ptf)
	correct, _ := ipa.InnerProd(f, b)
	for k, rc := range pr.Results {
		var res fr.Element
		one := fr.One()
		switch rc {
		case "correct":
			res = correct
		case "+1":
			res.Add(&correct, &one)
		case "-1":
			res.Sub(&correct, &one)
		case "0":
			res = fr.Zero()
		case "f255":
			res = f[255]
		case "f0":
			res = f[0]
		case "pfL0", "pfL7", "pfR3", "pfa", "pfswap", "pfL0id", "pfLnext":
			res = correct // the correct result with a proof that differs from the honest one in a single component
		default:
			res = rnd.fr()
		}
		vtr := common.NewTranscript(label)
		ve := ev{"ev": "ipa_verify", "prog": pid, "k": k, "rcls": rc, "result": frReg(&res), "pcls": pr.Point}
		honest := proof
		if strings.HasPrefix(rc, "pf") && len(proof.L) == 8 && len(proof.R) == 8 {
			q := ipa.IPAProof{L: append([]banderwagon.Element(nil), proof.L...), R: append([]banderwagon.Element(nil), proof.R...), A_scalar: proof.A_scalar}
			switch rc {
			case "pfL0":
				q.L[0].Add(&q.L[0], &banderwagon.Generator)
			case "pfL7":
				q.L[7].Add(&q.L[7], &banderwagon.Generator)
			case "pfR3":
				q.R[3].Add(&q.R[3], &banderwagon.Generator)
			case "pfa":
				q.A_scalar.Add(&q.A_scalar, &one)
			case "pfswap":
				q.L, q.R = q.R, q.L
			case "pfL0id":
				q.L[0].SetIdentity()
			case "pfLnext":
				q.L[2], q.L[3] = q.L[3], q.L[2]
			}
			proof = q
			ve["proof"] = ipaJSON(&q)
		}
		var ok bool
		var verr error
		func() {
			defer func() {
				if r := recover(); r != nil {
					ve["panic"] = fmt.Sprint(r)
				}
			}()
			var g tailGuard
			pg := ipa.IPAProof{L: guardSlice(&g, proof.L, cfg.SRS[9]), R: guardSlice(&g, proof.R, cfg.SRS[9]), A_scalar: proof.A_scalar}
			mustReturn("CheckIPAProof", func() { ok, verr = ipa.CheckIPAProof(vtr, cfg, C, pg, ptf, res) })
			ve["tails_unchanged"] = g.ok()
		}()
		ve["ok"] = ok
		ve["err"] = verr != nil
		w.emit(ve)
		proof = honest
	}
}

// ---- (de)serialisation (C10) ----

// behaviourReader delivers data in the given chunk sizes; options: return the last chunk together with io.EOF,
// fail with a non-EOF error once `errAt` bytes have been delivered.
type behaviourReader struct {
	data      []byte
	chunk     int
	eofWith   bool
	errAt     int
	delivered int
	calls     []int
}

var errInjected = errors.New("injected read error")

func (r *behaviourReader) Read(p []byte) (int, error) {
	if r.errAt >= 0 && r.delivered >= r.errAt {
		r.calls = append(r.calls, -1)
		return 0, errInjected
	}
	if len(r.data) == 0 {
		r.calls = append(r.calls, 0)
		return 0, io.EOF
	}
	n := r.chunk
	if n <= 0 || n > len(p) {
		n = len(p)
	}
	if n > len(r.data) {
		n = len(r.data)
	}
	if r.errAt >= 0 && r.delivered+n > r.errAt {
		n = r.errAt - r.delivered
	}
	copy(p, r.data[:n])
	r.data = r.data[n:]
	r.delivered += n
	r.calls = append(r.calls, n)
	if len(r.data) == 0 && r.eofWith {
		return n, io.EOF
	}
	return n, nil
}

type faultWriter struct {
	failAt int // fail the failAt-th Write call (1-based); 0 = never
	calls  int
	buf    bytes.Buffer
}

func (w *faultWriter) Write(p []byte) (int, error) {
	w.calls++
	if w.failAt > 0 && w.calls == w.failAt {
		return 0, errors.New("injected write error")
	}
	return w.buf.Write(p)
}

var (
	codecProof *multiproof.MultiProof
)

func honestProofBytes(d *driver) ([]byte, *multiproof.MultiProof) {
	cfg := getConf()
	if codecProof == nil {
		f := polyClass("random", 1, newPrg("codec-poly", d.seed))
		g := polyClass("small", 2, newPrg("codec-poly2", d.seed))
		cf, cg := cfg.Commit(f), cfg.Commit(g)
		tr := common.NewTranscript("codec")
		p, err := multiproof.CreateMultiProof(tr, cfg, []*banderwagon.Element{&cf, &cg}, [][]fr.Element{f, g}, []uint8{3, 200})
		if err != nil {
			panic(err)
		}
		codecProof = p
	}
	var buf bytes.Buffer
	if err := codecProof.Write(&buf); err != nil {
		panic(err)
	}
	return buf.Bytes(), codecProof
}

func (d *driver) runCodec(w emitter, pid int, pr *proofProg) {
	valid, proof := honestProofBytes(d)
	isIPA := pr.Src == "ipa"
	if isIPA {
		valid = valid[32:]
	}
	rnd := newPrg("codec", d.seed, pid)
	if pr.Kind == "write" {
		fw := &faultWriter{failAt: pr.Fault}
		var err error
		if isIPA {
			err = proof.IPA.Write(fw)
		} else {
			err = proof.Write(fw)
		}
		w.emit(ev{"ev": "write", "prog": pid, "src": pr.Src, "fault": pr.Fault, "calls": fw.calls, "err": err != nil, "bytes": bytesToInts(fw.buf.Bytes()), "proof": proofJSON(proof)})
		return
	}
	data := append([]byte(nil), valid...)
	field := pr.Pos % (len(valid) / 32) // which 32-byte field
	set := func(v []byte) { copy(data[32*field:32*field+32], v) }
	lastField := len(valid)/32 - 1
	switch pr.Bytes {
	case "valid":
	case "short1":
		data = data[:len(data)-1]
	case "short32":
		data = data[:len(data)-32]
	case "empty":
		data = nil
	case "trail1":
		data = append(data, 0)
	case "trail32":
		data = append(data, data[:32]...)
	case "scalar_r":
		field = lastField
		le := new(big.Int).Set(modR).FillBytes(make([]byte, 32))
		for i, j := 0, 31; i < j; i, j = i+1, j-1 {
			le[i], le[j] = le[j], le[i]
		}
		set(le)
	case "scalar_pat":
		// the final scalar agrees with r on its top limb; limbs 2, 1, 0 are each (limb of r) - 1 / equal / + 1, pattern number pr.Pos in base 3
		field = lastField
		v := new(big.Int)
		pat := pr.Pos % 27
		digs := []int{0, pat / 9, (pat / 3) % 3, pat % 3} // limb 3 equal
		for i := 0; i < 4; i++ {
			limb := new(big.Int).Rsh(modR, uint(64*(3-i)))
			limb.And(limb, new(big.Int).SetUint64(^uint64(0)))
			if i > 0 {
				limb.Add(limb, big.NewInt(int64(digs[i]-1)))
			}
			v.Lsh(v, 64)
			v.Add(v, limb)
		}
		le := v.FillBytes(make([]byte, 32))
		for i, j := 0, 31; i < j; i, j = i+1, j-1 {
			le[i], le[j] = le[j], le[i]
		}
		set(le)
	case "scalar_r+1", "scalar_r-1", "scalar_max":
		field = lastField
		v := new(big.Int).Set(modR)
		switch pr.Bytes {
		case "scalar_r+1":
			v.Add(v, big.NewInt(1))
		case "scalar_r-1":
			v.Sub(v, big.NewInt(1))
		default:
			v.Sub(two256, big.NewInt(1))
		}
		le := v.FillBytes(make([]byte, 32))
		for i, j := 0, 31; i < j; i, j = i+1, j-1 {
			le[i], le[j] = le[j], le[i]
		}
		set(le)
	case "pt_xplusp":
		if field == lastField {
			field = 0
		}
		x := new(big.Int).SetBytes(data[32*field : 32*field+32])
		set(be32(x.Add(x, modP)))
	case "pt_nonsubgroup":
		if field == lastField {
			field = 0
		}
		set(be32(findX(rnd, "nonsubgroup")))
	case "pt_nonsubgroup2", "pt_nonsubgroup4", "pt_nonsubgroupall", "pt_offcurve2", "pt_xplusp2", "pt_nonsub_same2":
		// SEVERAL invalid point fields at once (a validation batched over the fields must not let them cancel out):
		// 2 / 4 / all point fields starting at `field`, the same non-subgroup x twice, two off-curve x, two x+p
		cnt := map[string]int{"pt_nonsubgroup2": 2, "pt_nonsubgroup4": 4, "pt_nonsubgroupall": lastField, "pt_offcurve2": 2, "pt_xplusp2": 2, "pt_nonsub_same2": 2}[pr.Bytes]
		same := findX(rnd, "nonsubgroup")
		f0 := field
		for j := 0; j < cnt; j++ {
			field = (f0 + j*3) % lastField // point fields only: 0 .. lastField-1
			if pr.Bytes == "pt_nonsubgroupall" {
				field = j
			}
			switch pr.Bytes {
			case "pt_offcurve2":
				set(be32(findX(rnd, "offcurve")))
			case "pt_xplusp2":
				x := new(big.Int).SetBytes(data[32*field : 32*field+32])
				set(be32(x.Add(x, modP)))
			case "pt_nonsub_same2":
				set(be32(same))
			default:
				set(be32(findX(rnd, "nonsubgroup")))
			}
		}
	case "pt_offcurve":
		if field == lastField {
			field = 0
		}
		set(be32(findX(rnd, "offcurve")))
	case "pt_other":
		if field == lastField {
			field = 0
		}
		set(be32(findX(rnd, "valid")))
	case "bitflip":
		pos := rnd.intn(len(data))
		data[pos] ^= 1 << uint(rnd.intn(8))
	case "random":
		data = rnd.bytes(len(valid))
	}
	rd := &behaviourReader{data: append([]byte(nil), data...), errAt: -1}
	switch pr.Reader {
	case "whole":
	case "byte1":
		rd.chunk = 1
	case "field32":
		rd.chunk = 32
	case "chunk7":
		rd.chunk = 7
	case "chunk33":
		rd.chunk = 33
	case "dataeof":
		rd.eofWith = true
	case "dataeof32":
		rd.eofWith = true
		rd.chunk = 32
	case "dataeof1":
		rd.eofWith = true
		rd.chunk = 1
	default: // "err@k": injected failure after k bytes
		var k int
		fmt.Sscanf(pr.Reader, "err@%d", &k)
		rd.errAt = k
	}
	e := ev{"ev": "read", "prog": pid, "src": pr.Src, "bcls": pr.Bytes, "rcls": pr.Reader, "data": bytesToInts(data), "eof_with": rd.eofWith, "err_at": rd.errAt}
	func() {
		defer func() {
			if r := recover(); r != nil {
				e["panic"] = fmt.Sprint(r)
			}
		}()
		var err error
		var out bytes.Buffer
		if isIPA {
			var ip ipa.IPAProof
			err = ip.Read(rd)
			if err == nil {
				e["werr"] = ip.Write(&out) != nil
				e["proof"] = ipaJSON(&ip)
				// read the same bytes again into the object that now holds a proof
				var out2 bytes.Buffer
				e["reuse_ok"] = ip.Read(bytes.NewReader(out.Bytes())) == nil && ip.Write(&out2) == nil && bytes.Equal(out.Bytes(), out2.Bytes())
			}
		} else {
			var mp multiproof.MultiProof
			err = mp.Read(rd)
			if err == nil {
				e["werr"] = mp.Write(&out) != nil
				e["proof"] = proofJSON(&mp)
				var mp2 multiproof.MultiProof
				e["reread_equal"] = mp2.Read(bytes.NewReader(out.Bytes())) == nil && mp2.Equal(mp)
				var out2 bytes.Buffer
				e["reuse_ok"] = mp.Read(bytes.NewReader(out.Bytes())) == nil && mp.Write(&out2) == nil && bytes.Equal(out.Bytes(), out2.Bytes())
			}
		}
		e["err"] = err != nil
		if err == nil {
			e["rewritten"] = bytesToInts(out.Bytes())
		}
	}()
	e["calls"] = rd.calls
	e["consumed"] = rd.delivered
	w.emit(e)
}
