package main

import (
	"fmt"
	"math/big"
	"runtime"
	"time"

	"github.com/crate-crypto/go-ipa/bandersnatch"
	"github.com/crate-crypto/go-ipa/bandersnatch/fr"
	"github.com/crate-crypto/go-ipa/banderwagon"
	"github.com/crate-crypto/go-ipa/ipa"
)

// ---- family "msm": variable-base multi-scalar multiplication (C09) ----

type msmCase struct {
	Kind    string `json:"kind"`    // api | inner | mismatch | multiscalar
	N       int    `json:"n"`       // number of points
	Tasks   int    `json:"tasks"`   // NbTasks
	Mont    bool   `json:"mont"`    // scalars flagged as Montgomery
	Small   int    `json:"small"`   // percentage of small scalars (first-chunk split path)
	Points  string `json:"points"`  // point class
	Scalars string `json:"scalars"` // scalar class
	C       int    `json:"c"`       // window for the internal entry point
	Split   bool   `json:"split"`
}

func affXY(e *banderwagon.Element) [][]int {
	a := affineOf(e)
	return [][]int{fpReg(&a.X), fpReg(&a.Y)}
}

func msmPoints(cls string, n int, p *prg) []banderwagon.Element {
	cfg := getConf()
	pts := make([]banderwagon.Element, n)
	for i := 0; i < n; i++ {
		base := cfg.SRS[i%256]
		if i >= 256 {
			// beyond the SRS: multiples, cheap and distinct
			var t banderwagon.Element
			t.Add(&cfg.SRS[i%256], &cfg.SRS[(i/256+7*i)%256])
			base = t
		}
		switch cls {
		case "dup":
			base = cfg.SRS[(i/3)%256]
		case "withid":
			if i%4 == 1 {
				base = banderwagon.Identity
			}
		case "flip":
			if i%2 == 0 {
				base = rescaled(base, big.NewInt(1), true)
			}
		case "proj":
			z := p.big(200)
			z.Add(z, big.NewInt(2))
			base = rescaled(base, z, i%3 == 0)
		case "same":
			base = cfg.SRS[5]
		case "neg": // P next to -P
			base = cfg.SRS[(i/2)%256]
			if i%2 == 1 {
				base.Neg(&base)
			}
		}
		pts[i] = base
	}
	return pts
}

func msmScalars(cls string, n, smallPct int, p *prg) []*big.Int {
	out := make([]*big.Int, n)
	for i := 0; i < n; i++ {
		if cls == "aligned" { // set bits at the same position of different limbs
			out[i] = scalarClass([]string{"2^64+1", "2^128+1", "2^192+1", "2^69+2^5", "2^200+2^8", "3bits"}[i%6], p)
			continue
		}
		if cls == "asmont" { // canonical values that look like Montgomery forms of small numbers (and the reverse)
			out[i] = montClass([]string{"asmont:1", "asmont:2", "asmont:-1", "asmont:R", "mont:1", "mont:2^64"}[i%6])
			continue
		}
		if cls == "mont" { // single-word Montgomery forms
			out[i] = montWords(new(big.Int).SetUint64(uint64(p.intn(1<<30))<<34 | uint64(i+1)))
			continue
		}
		var v *big.Int
		if smallPct > 0 && (i*100)/max1(n) < smallPct {
			v = big.NewInt(int64(1 + p.intn(15)))
		} else {
			switch cls {
			case "zero":
				v = big.NewInt(0)
			case "one":
				v = big.NewInt(1)
			case "edge":
				v = scalarClass([]string{"r-1", "0", "1", "2^64", "h", "2^128", "r-2", "2^252", "lam", "3"}[i%10], p)
			case "ones": // all c-bit windows all ones: every digit borrows
				v = new(big.Int).Sub(new(big.Int).Lsh(big.NewInt(1), 252), big.NewInt(1))
			case "oneword": // scalars that fit one 64-bit word, with the top windows of that word set (carry out of limb 0)
				pats := []uint64{^uint64(0), 1 << 63, 1<<63 + 1, 0xF800000000000000, 0xFFF8000000000000, 0xFFFFFFFF00000000, 0x8000000000000001, 0xFFFFFFFFFFFFFFFE}
				if i < len(pats)*2 {
					v = new(big.Int).SetUint64(pats[i%len(pats)])
				} else {
					v = new(big.Int).SetUint64(p.big(64).Uint64() | 1<<63)
				}
			case "limbs": // carries at the 64-bit limb boundaries: 2^(64k)-1, 2^(64k-1), top bits of a limb set, zero limbs above
				k := uint(1 + i%3)
				one := big.NewInt(1)
				switch (i / 3) % 5 {
				case 0:
					v = new(big.Int).Sub(new(big.Int).Lsh(one, 64*k), one)
				case 1:
					v = new(big.Int).Lsh(one, 64*k-1)
				case 2:
					v = new(big.Int).Sub(new(big.Int).Lsh(one, 64*k), new(big.Int).Lsh(one, 64*k-5))
				case 3:
					v = new(big.Int).Add(new(big.Int).Lsh(one, 64*k), new(big.Int).SetUint64(^uint64(0)>>1))
				default:
					v = new(big.Int).Lsh(new(big.Int).SetUint64(p.big(64).Uint64()|1<<63), 64*(k-1))
				}
			case "half": // windows equal to half the range for many c
				v, _ = new(big.Int).SetString("0808080808080808080808080808080808080808080808080808080808080808", 16)
			default:
				v = scalarClass("rnd", p)
			}
		}
		out[i] = v.Mod(v, modR)
	}
	return out
}
func max1(n int) int {
	if n < 1 {
		return 1
	}
	return n
}

func toFr(vals []*big.Int, mont bool) []fr.Element {
	out := make([]fr.Element, len(vals))
	for i, v := range vals {
		if mont {
			out[i] = frFromBig(v)
		} else {
			out[i] = frFromRaw(v)
		}
	}
	return out
}
func limbsList(vals []*big.Int) [][]int {
	out := make([][]int, len(vals))
	for i, v := range vals {
		out[i] = limbsOfBig(v)
	}
	return out
}

// runs f under a watchdog; returns false if it did not finish (the goroutine is abandoned)
func watchdog(f func(), d time.Duration) bool {
	done := make(chan struct{})
	go func() { f(); close(done) }()
	select {
	case <-done:
		return true
	case <-time.After(d):
		return false
	}
}

// the same points and scalars slices passed again after in-place changes: the result must follow the current contents
func (d *driver) runMsmReuse(w emitter, k int, c *msmCase) {
	p := newPrg("msm-reuse", d.seed, k)
	pts := msmPoints("srs", c.N, p)
	vals := msmScalars("rnd", c.N, 0, p)
	scs := toFr(vals, true)
	cfg := getConf()
	for step := 0; step < 5; step++ {
		switch step {
		case 1:
			vals[0] = new(big.Int).Add(vals[0], big.NewInt(1))
			vals[0].Mod(vals[0], modR)
			scs[0] = frFromBig(vals[0])
		case 2:
			pts[len(pts)/2] = cfg.SRS[(k+33)%256] // an INTERIOR point (both ends unchanged)
		case 3:
			pts[len(pts)-1] = cfg.SRS[(k+77)%256]
		case 4:
			for i := range vals {
				vals[i] = big.NewInt(int64(i % 3))
				scs[i] = frFromBig(vals[i])
			}
		}
		xy := make([][][]int, len(pts))
		for i := range pts {
			xy[i] = affXY(&pts[i])
		}
		e := ev{"ev": "msm", "k": k, "kind": "api", "n": c.N, "tasks": c.Tasks, "mont": true, "small": 0, "pcls": "reuse", "scls": "reuse",
			"pts": xy, "scalars": limbsList(vals), "numcpu": runtime.NumCPU(), "finished": true}
		func() {
			defer func() {
				if r := recover(); r != nil {
					e["panic"] = fmt.Sprint(r)
				}
			}()
			var res banderwagon.Element
			res.SetIdentity()
			r, err := res.MultiExp(pts, scs, banderwagon.MultiExpConfig{NbTasks: c.Tasks, ScalarsMont: true})
			e["err"] = err != nil
			if err == nil {
				e["out"] = coords(r)
			}
		}()
		w.emit(e)
	}
}

// a history of large calls in one process: a dense call, then shorter / equally long calls with many zero scalars at positions where
// the earlier call had non-zero ones, then a single non-zero scalar (whatever an earlier call leaves in recycled buffers must not matter)
func (d *driver) runMsmHistory(w emitter, k int, c *msmCase) {
	p := newPrg("msm-history", d.seed, k)
	N := c.N
	steps := []struct {
		n    int
		mode string
	}{{N, "dense"}, {N, "thirds"}, {N - N/4, "sparse"}, {N, "single"}, {N/2 + 1, "dense"}, {N, "zero"}}
	for si, st := range steps {
		pts := msmPoints("srs", st.n, p)
		vals := make([]*big.Int, st.n)
		for i := range vals {
			vals[i] = new(big.Int)
			switch st.mode {
			case "dense":
				vals[i] = scalarClass("rnd", p)
			case "thirds":
				if i%3 != 0 {
					vals[i] = scalarClass("rnd", p)
				}
			case "sparse":
				if i%17 == 5 {
					vals[i] = scalarClass("rnd", p)
				}
			case "single":
				if i == st.n/2 {
					vals[i] = big.NewInt(3)
				}
			}
		}
		scs := toFr(vals, c.Mont)
		xy := make([][][]int, len(pts))
		for i := range pts {
			xy[i] = affXY(&pts[i])
		}
		e := ev{"ev": "msm", "k": k, "kind": "api", "n": st.n, "tasks": c.Tasks, "mont": c.Mont, "small": 0, "pcls": "history", "scls": st.mode + "/" + itoa(si),
			"pts": xy, "scalars": limbsList(vals), "numcpu": runtime.NumCPU(), "finished": true}
		func() {
			defer func() {
				if r := recover(); r != nil {
					e["panic"] = fmt.Sprint(r)
				}
			}()
			var res banderwagon.Element
			res.SetIdentity()
			r, err := res.MultiExp(pts, scs, banderwagon.MultiExpConfig{NbTasks: c.Tasks, ScalarsMont: c.Mont})
			e["err"] = err != nil
			if err == nil {
				e["out"] = coords(r)
			}
		}()
		w.emit(e)
	}
}

// a history of REJECTED calls (length mismatch through every entry point), then well-formed ones: errors must leave nothing behind
func (d *driver) runMsmMismatchHistory(w emitter, k int, c *msmCase) {
	p := newPrg("msm-mismatch", d.seed, k)
	cfg := getConf()
	for rep := 0; rep < c.N; rep++ {
		func() {
			defer func() { recover() }()
			pts := msmPoints("srs", 5+rep, p)
			scs := toFr(msmScalars("rnd", 4+rep, 0, p), true)
			var res banderwagon.Element
			res.MultiExp(pts, scs, banderwagon.MultiExpConfig{NbTasks: c.Tasks, ScalarsMont: true})
			ipa.MultiScalar(cfg.SRS[:6+rep], scs)
			affs := make([]bandersnatch.PointAffine, len(pts))
			for i := range pts {
				affs[i] = affineOf(&pts[i])
			}
			bandersnatch.MultiExpAffine(affs, scs, bandersnatch.MultiExpConfig{NbTasks: c.Tasks, ScalarsMont: true})
		}()
	}
	for _, n := range []int{5, 64} {
		pts := msmPoints("srs", n, p)
		vals := msmScalars("rnd", n, 0, p)
		scs := toFr(vals, true)
		xy := make([][][]int, len(pts))
		for i := range pts {
			xy[i] = affXY(&pts[i])
		}
		e := ev{"ev": "msm", "k": k, "kind": "api", "n": n, "tasks": c.Tasks, "mont": true, "small": 0, "pcls": "after-mismatches", "scls": "rnd",
			"pts": xy, "scalars": limbsList(vals), "numcpu": runtime.NumCPU()}
		fin := watchdog(func() {
			defer func() {
				if r := recover(); r != nil {
					e["panic"] = fmt.Sprint(r)
				}
			}()
			var res banderwagon.Element
			res.SetIdentity()
			r, err := res.MultiExp(pts, scs, banderwagon.MultiExpConfig{NbTasks: c.Tasks, ScalarsMont: true})
			e["err"] = err != nil
			if err == nil {
				e["out"] = coords(r)
			}
		}, 60*time.Second)
		e["finished"] = fin
		w.emit(e)
		if !fin {
			return // the process is stuck behind whatever the rejected calls left: no further call would return
		}
	}
}

func (d *driver) runMsmCase(w emitter, k int, c *msmCase) {
	if c.Kind == "mismatchhist" {
		d.runMsmMismatchHistory(w, k, c)
		return
	}
	if c.Kind == "history" {
		d.runMsmHistory(w, k, c)
		return
	}
	if c.Kind == "reuse" {
		d.runMsmReuse(w, k, c)
		return
	}
	p := newPrg("msm", d.seed, k)
	pts := msmPoints(c.Points, c.N, p)
	vals := msmScalars(c.Scalars, c.N, c.Small, p)
	xy := make([][][]int, len(pts))
	for i := range pts {
		xy[i] = affXY(&pts[i])
	}
	e := ev{"ev": "msm", "k": k, "kind": c.Kind, "n": c.N, "tasks": c.Tasks, "mont": c.Mont, "small": c.Small, "pcls": c.Points, "scls": c.Scalars,
		"pts": xy, "scalars": limbsList(vals), "numcpu": runtime.NumCPU()}
	var decisions []ev
	bandersnatch.VerifMsmDecision = func(n, nbTasks, cc, nbSplits, nbPoints, smallValues int, split bool) {
		decisions = append(decisions, ev{"n": n, "tasks": nbTasks, "c": cc, "splits": nbSplits, "pts": nbPoints, "small": smallValues, "splitfirst": split})
	}
	defer func() { bandersnatch.VerifMsmDecision = nil }()
	switch c.Kind {
	case "api", "multiscalar", "mismatch":
		scs := toFr(vals, c.Mont || c.Kind == "multiscalar")
		if c.Kind == "mismatch" && len(scs) > 0 {
			scs = scs[:len(scs)-1]
		}
		ptsBefore := append([]banderwagon.Element(nil), pts...)
		scsBefore := append([]fr.Element(nil), scs...)
		var res banderwagon.Element
		var err error
		fin := watchdog(func() {
			defer func() {
				if r := recover(); r != nil {
					e["panic"] = fmt.Sprint(r)
				}
			}()
			if c.Kind == "multiscalar" {
				res, err = ipa.MultiScalar(pts, scs)
			} else {
				var r *banderwagon.Element
				res.SetIdentity()
				var g tailGuard
				var ssent fr.Element
				ssent.SetUint64(0xdecaf)
				gp, gs := guardSlice(&g, pts, getConf().SRS[9]), guardSlice(&g, scs, ssent)
				r, err = res.MultiExp(gp, gs, banderwagon.MultiExpConfig{NbTasks: c.Tasks, ScalarsMont: c.Mont})
				copy(pts, gp)
				copy(scs, gs)
				e["tails_unchanged"] = g.ok()
				if err == nil {
					res = *r
				}
			}
		}, 180*time.Second)
		e["finished"] = fin
		if fin && len(decisions) == 1 {
			e["decision"] = decisions[0]
		}
		if fin {
			e["err"] = err != nil
			if err == nil {
				e["out"] = coords(&res)
			}
			same := true
			for i := range pts {
				if pts[i] != ptsBefore[i] {
					same = false
				}
			}
			for i := range scs {
				if scs[i] != scsBefore[i] {
					same = false
				}
			}
			e["inputs_unchanged"] = same
			// the affine-result form of the same call
			if c.Kind == "api" && err == nil && len(pts) <= 64 && e["panic"] == nil {
				affs := make([]bandersnatch.PointAffine, len(pts))
				for i := range pts {
					affs[i] = affineOf(&pts[i])
				}
				func() {
					defer func() {
						if r := recover(); r != nil {
							e["panic"] = fmt.Sprint(r)
						}
					}()
					ra, erra := bandersnatch.MultiExpAffine(affs, scs, bandersnatch.MultiExpConfig{NbTasks: c.Tasks, ScalarsMont: c.Mont})
					e["aff_err"] = erra != nil
					if erra == nil {
						e["aff"] = [][]int{fpReg(&ra.X), fpReg(&ra.Y)}
					}
				}()
			}
		}
	case "inner":
		// the internal entry point: partition for window c, then the chunk/bucket routine for exactly this c
		scs := toFr(vals, c.Mont)
		aff := make([]bandersnatch.PointAffine, len(pts))
		for i := range pts {
			aff[i] = affineOf(&pts[i])
		}
		var out bandersnatch.PointProj
		var part []fr.Element
		var small int
		fin := watchdog(func() {
			defer func() {
				if r := recover(); r != nil {
					e["panic"] = fmt.Sprint(r)
				}
			}()
			tasks := c.Tasks
			if tasks <= 0 {
				tasks = runtime.NumCPU()
			}
			part, small = bandersnatch.VerifPartitionScalars(scs, uint64(c.C), c.Mont, tasks)
			bandersnatch.VerifMsmInner(&out, c.C, aff, part, c.Split)
		}, 300*time.Second)
		e["finished"] = fin
		e["c"] = c.C
		e["split"] = c.Split
		if fin && e["panic"] == nil {
			el := banderwagon.VerifFromCoords(out.X, out.Y, out.Z)
			e["out"] = coords(&el)
			e["err"] = false
			e["smallvalues"] = small
			if len(part) <= 40 {
				pw := make([][]int, len(part))
				for i := range part {
					pw[i] = frRaw(&part[i])
				}
				e["partition"] = pw
			}
		}
	}
	w.emit(e)
}
