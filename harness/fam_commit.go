package main

import (
	"math/big"

	"github.com/crate-crypto/go-ipa/bandersnatch/fr"
	"github.com/crate-crypto/go-ipa/banderwagon"
	"github.com/crate-crypto/go-ipa/ipa"
)

// ---- family "commit": Pedersen commitments through the precomputed tables (C05) ----

type commitCase struct {
	Kind  string `json:"kind"`  // digit | vec | lin | table | crs
	Pos   int    `json:"pos"`   // basis position
	Win   int    `json:"win"`   // window index (of the position's window size)
	Digit string `json:"digit"` // digit class
	Chain int    `json:"chain"` // length of the carry chain below the window
	Rest  string `json:"rest"`  // other windows: zero | rnd
	Vec   string `json:"vec"`   // vector class
	N     int    `json:"n"`
	Cnt   int    `json:"cnt"`
}

func windowSize(pos int) int {
	if pos < 5 {
		return 16
	}
	return 8
}

// scalar with a chosen digit class in window win, a carry chain of the given length below it
func digitScalar(c *commitCase, p *prg) *big.Int {
	ws := windowSize(c.Pos)
	nw := 256 / ws
	full := 1 << uint(ws)
	half := full / 2
	win := make([]int, nw)
	if c.Rest == "rnd" {
		for i := range win {
			win[i] = p.intn(full)
		}
	}
	w := c.Win % nw
	var dv int
	switch c.Digit {
	case "0":
		dv = 0
	case "1":
		dv = 1
	case "half-1":
		dv = half - 1
	case "half":
		dv = half
	case "half+1":
		dv = half + 1
	case "max-1":
		dv = full - 2
	default:
		dv = full - 1
	}
	win[w] = dv
	// carry chain: lowest window of the chain just above half, the ones between all ones
	if c.Chain > 0 && w-c.Chain >= 0 {
		win[w-c.Chain] = half + 1
		for i := w - c.Chain + 1; i < w; i++ {
			win[i] = full - 1
		}
	}
	s := new(big.Int)
	for i := nw - 1; i >= 0; i-- {
		s.Lsh(s, uint(ws))
		s.Or(s, big.NewInt(int64(win[i])))
	}
	return s.Mod(s, modR)
}

type sparse struct {
	idx []int
	val []*big.Int
	n   int
}

func (s *sparse) dense() []fr.Element {
	v := make([]fr.Element, s.n)
	for i, ix := range s.idx {
		v[ix] = frFromBig(s.val[i])
	}
	return v
}
func (s *sparse) json() (idx []int, vals [][]int) {
	for i := range s.idx {
		if new(big.Int).Mod(s.val[i], modR).Sign() != 0 {
			idx = append(idx, s.idx[i])
			vals = append(vals, limbsOfBig(new(big.Int).Mod(s.val[i], modR)))
		}
	}
	if idx == nil {
		idx, vals = []int{}, [][]int{}
	}
	return
}

func vecClass(name string, n int, p *prg) *sparse {
	s := &sparse{n: n}
	one := big.NewInt(1)
	add := func(i int, v *big.Int) { s.idx = append(s.idx, i); s.val = append(s.val, v) }
	switch name {
	case "empty":
	case "ones":
		for i := 0; i < n; i++ {
			add(i, one)
		}
	case "rminus1":
		for i := 0; i < n; i++ {
			add(i, new(big.Int).Sub(modR, one))
		}
	case "hot":
		if n > 0 {
			add(p.intn(n), scalarClass("rnd", p))
		}
	case "first5":
		for i := 0; i < n && i < 5; i++ {
			add(i, scalarClass("rnd", p))
		}
	case "small":
		for i := 0; i < n; i++ {
			add(i, big.NewInt(int64(p.intn(300))))
		}
	case "mont": // small stored (Montgomery) words
		for i := 0; i < n; i++ {
			add(i, montWords(big.NewInt(int64(1+p.intn(300)))))
		}
	default:
		for i := 0; i < n; i++ {
			add(i, scalarClass("rnd", p))
		}
	}
	return s
}

func (d *driver) commitEvent(w emitter, k int, cls string, s *sparse, withMS bool) banderwagon.Element {
	cfg := getConf()
	v := s.dense()
	before := append([]fr.Element(nil), v...)
	var g tailGuard
	var ssent fr.Element
	ssent.SetUint64(0xdecaf)
	gv := guardSlice(&g, v, ssent)
	c := cfg.Commit(gv)
	copy(v, gv)
	idx, vals := s.json()
	e := ev{"ev": "commit", "k": k, "cls": cls, "n": s.n, "idx": idx, "vals": vals, "out": coords(&c), "tails_unchanged": g.ok()}
	same := true
	for i := range v {
		if v[i] != before[i] {
			same = false
		}
	}
	e["input_unchanged"] = same
	b := c.Bytes()
	e["bytes"] = bytesToInts(b[:])
	if withMS {
		ms, err := ipa.MultiScalar(cfg.SRS[:s.n], v)
		e["ms_err"] = err != nil
		e["ms"] = coords(&ms)
	}
	w.emit(e)
	return c
}

func (d *driver) runCommitCase(w emitter, k int, c *commitCase) {
	cfg := getConf()
	p := newPrg("commit", d.seed, k)
	switch c.Kind {
	case "digit":
		s := &sparse{n: c.Pos + 1, idx: []int{c.Pos}, val: []*big.Int{digitScalar(c, p)}}
		d.commitEvent(w, k, "digit/"+c.Digit, s, false)
	case "vec":
		for i := 0; i < c.Cnt; i++ {
			d.commitEvent(w, k, "vec/"+c.Vec, vecClass(c.Vec, c.N, p), i == 0)
		}
	case "reuse":
		// ONE slice, committed again and again after being changed in place (a node's values being updated): the result must be
		// that of the current contents (no result may be remembered by slice identity)
		v := vecClass([]string{"rnd", "small", "hot"}[c.Cnt%3], c.N, p).dense()
		emit := func() {
			before := append([]fr.Element(nil), v...)
			cm := cfg.Commit(v)
			idx, vals := []int{}, [][]int{}
			for i := range v {
				if !v[i].IsZero() {
					idx = append(idx, i)
					vals = append(vals, frReg(&v[i]))
				}
			}
			same := true
			for i := range v {
				if v[i] != before[i] {
					same = false
				}
			}
			b := cm.Bytes()
			w.emit(ev{"ev": "commit", "k": k, "cls": "reuse", "n": len(v), "idx": idx, "vals": vals, "out": coords(&cm), "input_unchanged": same, "bytes": bytesToInts(b[:])})
		}
		emit()
		one := fr.One()
		for step := 0; step < 4 && len(v) > 0; step++ {
			j := p.intn(len(v))
			switch step {
			case 0:
				v[j].Add(&v[j], &one)
			case 1:
				v[j].SetZero()
				v[len(v)-1].Add(&v[len(v)-1], &one)
			case 2:
				v[j] = frFromBig(new(big.Int).Sub(modR, big.NewInt(1)))
			default:
				for i := range v {
					v[i].SetZero()
				}
				v[j] = p.fr()
			}
			emit()
		}
	case "lin":
		// Commit(a), Commit(b), Commit(a+b), Commit(k*a), single-coefficient update
		n := c.N
		a, b := vecClass("rnd", n, p), vecClass("rnd", n, p)
		sum := &sparse{n: n}
		ka := &sparse{n: n}
		kk := scalarClass("rnd", p)
		for i := range a.idx {
			sum.idx = append(sum.idx, a.idx[i])
			sum.val = append(sum.val, new(big.Int).Add(a.val[i], b.val[i]))
			ka.idx = append(ka.idx, a.idx[i])
			ka.val = append(ka.val, new(big.Int).Mul(a.val[i], kk))
		}
		ca := d.commitEvent(w, k, "lin/a", a, false)
		cb := d.commitEvent(w, k, "lin/b", b, false)
		cs := d.commitEvent(w, k, "lin/a+b", sum, false)
		ck := d.commitEvent(w, k, "lin/k*a", ka, false)
		var viaAdd, viaMul banderwagon.Element
		viaAdd.Add(&ca, &cb)
		ks := frFromBig(kk)
		viaMul.ScalarMul(&ca, &ks)
		w.emit(ev{"ev": "linlaw", "k": k, "sum": coords(&cs), "via_add": coords(&viaAdd), "ka": coords(&ck), "via_mul": coords(&viaMul)})
	case "table":
		ws, nwin, nent := banderwagon.VerifPrecompDims(&cfg.PrecompMSM, c.Pos)
		win := c.Win % nwin
		cnt := c.Cnt
		if cnt > nent || cnt <= 0 {
			cnt = nent
		}
		ents := make([][][]int, cnt)
		for j := 0; j < cnt; j++ {
			x, y, t := banderwagon.VerifPrecompEntry(&cfg.PrecompMSM, c.Pos, win, j)
			ents[j] = [][]int{fpReg(&x), fpReg(&y), fpReg(&t)}
		}
		w.emit(ev{"ev": "table", "k": k, "pos": c.Pos, "win": win, "ws": ws, "nwin": nwin, "nent": nent, "entries": ents})
	case "crs":
		w.emit(ev{"ev": "crs_check", "k": k})
	}
}
