package main

import (
	"bytes"
	"fmt"
	"github.com/crate-crypto/go-ipa/bandersnatch/fp"
	"math/big"

	"github.com/crate-crypto/go-ipa/banderwagon"
	"github.com/crate-crypto/go-ipa/common"
)

// ---- family "decode": untrusted point decoding (C06) ----

type decCase struct {
	Fn  string `json:"fn"`  // SetBytes | SetBytesUncompressed | ReadPoint
	Cls string `json:"cls"` // input class
	N   int    `json:"n"`   // how many seeded members of the class
}

var (
	curveA    = new(big.Int).Sub(modP, big.NewInt(5))
	curveD, _ = new(big.Int).SetString("6389c12633c267cbc66e3bf86be3b6d8cb66677177e54f92b369f2f5188d58e7", 16)
)

func mulm(a, b *big.Int) *big.Int { x := new(big.Int).Mul(a, b); return x.Mod(x, modP) }
func subm(a, b *big.Int) *big.Int { x := new(big.Int).Sub(a, b); return x.Mod(x, modP) }

// y^2 for x, and 1 - a x^2
func curveY2(x *big.Int) (*big.Int, *big.Int) {
	x2 := mulm(x, x)
	num := subm(mulm(curveA, x2), big.NewInt(1))
	den := subm(mulm(curveD, x2), big.NewInt(1))
	y2 := mulm(num, new(big.Int).ModInverse(den, modP))
	sub := subm(big.NewInt(1), mulm(curveA, x2))
	return y2, sub
}
func isQR(v *big.Int) bool { return v.Sign() != 0 && big.Jacobi(v, modP) == 1 }

// random x of the requested kind: "valid", "nonsubgroup" (on curve, 1-ax^2 non-square), "offcurve"
func findX(p *prg, kind string) *big.Int {
	for {
		x := p.big(300)
		x.Mod(x, modP)
		y2, sub := curveY2(x)
		on := y2.Sign() == 0 || isQR(y2)
		sg := isQR(sub)
		switch kind {
		case "valid":
			if on && sg {
				return x
			}
		case "nonsubgroup":
			if on && !sg {
				return x
			}
		case "offcurve":
			if !on {
				return x
			}
		}
	}
}
func largerRoot(y2 *big.Int) *big.Int {
	y := new(big.Int).ModSqrt(y2, modP)
	half := new(big.Int).Rsh(new(big.Int).Sub(modP, big.NewInt(1)), 1)
	if y.Cmp(half) <= 0 {
		y.Sub(modP, y)
	}
	return y
}

// a valid (on-curve, in-subgroup) point whose y is the first admissible value at or after `y0` (stepping by `step`): y is chosen,
// x solved from x^2 = (1 - y^2)/(a - d y^2); `neg` selects the other root of x
func pointFromY(y0 *big.Int, step int64, neg bool) (*big.Int, *big.Int) {
	y := new(big.Int).Mod(y0, modP)
	for {
		y2 := mulm(y, y)
		den := subm(curveA, mulm(curveD, y2))
		if den.Sign() != 0 {
			x2 := mulm(subm(big.NewInt(1), y2), new(big.Int).ModInverse(den, modP))
			if x2.Sign() == 0 || isQR(x2) {
				x := new(big.Int).ModSqrt(x2, modP)
				if isQR(subm(big.NewInt(1), mulm(curveA, x2))) {
					if neg {
						x = subm(big.NewInt(0), x)
					}
					return x, new(big.Int).Set(y)
				}
			}
		}
		y = new(big.Int).Mod(y.Add(y, big.NewInt(step)), modP)
	}
}

// a valid (on-curve, in-subgroup) point whose ratio x/y is the first admissible value at or after rho0 (stepping by `step`):
// with Y = y^2 the curve equation becomes d rho^2 Y^2 - (a rho^2 + 1) Y + 1 = 0
func pointFromRatio(rho0 *big.Int, step int64) (*big.Int, *big.Int) {
	rho := new(big.Int).Mod(rho0, modP)
	one := big.NewInt(1)
	for ; ; rho = new(big.Int).Mod(rho.Add(rho, big.NewInt(step)), modP) {
		if rho.Sign() == 0 {
			continue
		}
		r2 := mulm(rho, rho)
		b := new(big.Int).Mod(new(big.Int).Add(mulm(curveA, r2), one), modP)
		A := mulm(curveD, r2)
		disc := subm(mulm(b, b), mulm(big.NewInt(4), A))
		if disc.Sign() != 0 && !isQR(disc) {
			continue
		}
		sq := new(big.Int).ModSqrt(disc, modP)
		inv2A := new(big.Int).ModInverse(mulm(big.NewInt(2), A), modP)
		for _, sgn := range []int{1, -1} {
			num := new(big.Int).Set(b)
			if sgn == 1 {
				num.Add(num, sq)
			} else {
				num.Sub(num, sq)
			}
			Y := mulm(new(big.Int).Mod(num, modP), inv2A)
			if Y.Sign() == 0 || !isQR(Y) {
				continue
			}
			y := new(big.Int).ModSqrt(Y, modP)
			x := mulm(rho, y)
			x2 := mulm(x, x)
			// on the curve by construction; the subgroup test decides
			if isQR(subm(one, mulm(curveA, x2))) {
				return x, y
			}
		}
	}
}

func be32(v *big.Int) []byte { return v.FillBytes(make([]byte, 32)) }

func (d *driver) decodeInput(c *decCase, i int) []byte {
	p := newPrg("decode", d.seed, c.Fn, c.Cls, i)
	unc := c.Fn == "SetBytesUncompressed"
	one := big.NewInt(1)
	mk := func(x *big.Int, y *big.Int) []byte {
		if !unc {
			return be32(x)
		}
		return append(be32(x), be32(y)...)
	}
	yOf := func(x *big.Int) *big.Int {
		y2, _ := curveY2(new(big.Int).Mod(x, modP))
		if y2.Sign() != 0 && !isQR(y2) {
			return p.big(255)
		}
		return largerRoot(y2)
	}
	switch c.Cls {
	case "relpair":
		// member 2j: an x; member 2j+1: a different x that a cheap digest of the limbs cannot tell from it (see limbRelatives)
		j := i / 2
		q := newPrg("relpair", d.seed, c.Fn, j)
		var base [4]uint64
		for t := range base {
			base[t] = q.big(60).Uint64() | 1
		}
		_, rels := limbRelatives(base, q)
		if j%3 == 0 {
			base = [4]uint64{}
			_, rels = zeroRelatives(q)
		}
		l := base
		if i%2 == 1 {
			l = rels[q.intn(len(rels))]
		}
		x := bigOfWords(l)
		if j%2 == 1 { // the limbs are those of the stored (Montgomery) form
			x.Mul(x, new(big.Int).ModInverse(two256, modP)).Mod(x, modP)
		}
		return mk(x, yOf(x))
	case "valid":
		x := findX(p, "valid")
		return mk(x, yOf(x))
	case "xplusp":
		x := findX(p, "valid")
		return mk(new(big.Int).Add(x, modP), yOf(x))
	case "nonsubgroup":
		x := findX(p, "nonsubgroup")
		return mk(x, yOf(x))
	case "offcurve":
		x := findX(p, "offcurve")
		return mk(x, yOf(x))
	case "yhalf", "yhalf64", "yhalf128", "yhalf192", "ytop", "yhalf_wrong":
		// boundary of the sign choice: canonical y just above (p-1)/2 (offset i+1, or agreeing with (p-1)/2 on its top 192/128/64 bits),
		// or just below p; "yhalf_wrong" offers the OTHER root, just below the boundary (uncompressed form only)
		half := new(big.Int).Rsh(new(big.Int).Sub(modP, one), 1)
		var y0 *big.Int
		step := int64(1)
		switch c.Cls {
		case "yhalf", "yhalf_wrong":
			y0 = new(big.Int).Add(half, big.NewInt(int64(1+i*3)))
		case "ytop":
			y0 = new(big.Int).Sub(modP, big.NewInt(int64(1+i*3)))
			step = -1
		default:
			bits := map[string]uint{"yhalf64": 64, "yhalf128": 128, "yhalf192": 192}[c.Cls]
			hi := new(big.Int).Rsh(half, bits)
			hi.Lsh(hi, bits)
			low := new(big.Int).Rsh(p.big(300), 300-bits)
			y0 = hi.Add(hi, low)
			if y0.Cmp(half) <= 0 {
				y0.Sub(modP, y0) // keep the larger root
			}
		}
		x, y := pointFromY(y0, step, i%2 == 1)
		if y.Cmp(half) <= 0 { // stepped across the boundary (cannot happen for the offsets used, kept for safety)
			y.Sub(modP, y)
			x = subm(big.NewInt(0), x)
		}
		if c.Cls == "yhalf_wrong" {
			return mk(x, new(big.Int).Sub(modP, y))
		}
		return mk(x, y)
	case "plimbs": // x = every pattern of (limb of p) - 1 / equal / + 1: the canonical-x comparison limb by limb
		x := limbPattern(modP, patOf(i))
		return mk(x, yOf(x))
	case "ypat": // the canonical y = a pattern of limbs around (p-1)/2 (top limb equal), the first valid point at or after it
		half := new(big.Int).Rsh(new(big.Int).Sub(modP, one), 1)
		y0 := limbPattern(half, "e"+patOf(i)[1:])
		x, y := pointFromY(y0, 1, i%2 == 1)
		if y.Cmp(half) <= 0 {
			y.Sub(modP, y)
			x = subm(big.NewInt(0), x)
		}
		return mk(x, y)
	case "ydyad":
		// a valid point whose y has a chosen 2-power component: y = g^(2^(i mod 32)) * s^(2^32) with g a primitive 2^32-th root of unity and
		// s random (decompression takes the square root of y^2: every position of its dyadic discrete log gets exercised)
		g0 := fp.VerifSqrtDyadicRoot(0)
		g := fpRegBig(&g0)
		e := new(big.Int).Lsh(one, uint(i%32))
		if i >= 32 {
			e.Add(e, new(big.Int).Lsh(one, uint((i*7)%32))) // two bits set
		}
		ge := new(big.Int).Exp(g, e, modP)
		half := new(big.Int).Rsh(new(big.Int).Sub(modP, one), 1)
		for {
			sv := p.big(300)
			sv.Mod(sv, modP)
			if sv.Sign() == 0 {
				continue
			}
			y := mulm(ge, new(big.Int).Exp(sv, new(big.Int).Lsh(one, 32), modP))
			// the point with this y, if there is a valid one
			y2 := mulm(y, y)
			den := subm(curveA, mulm(curveD, y2))
			if den.Sign() == 0 {
				continue
			}
			x2 := mulm(subm(one, y2), new(big.Int).ModInverse(den, modP))
			if x2.Sign() != 0 && !isQR(x2) {
				continue
			}
			x := new(big.Int).ModSqrt(x2, modP)
			if !isQR(subm(one, mulm(curveA, x2))) {
				continue
			}
			if y.Cmp(half) <= 0 { // the canonical representative has the larger y
				y.Sub(modP, y)
				x = subm(big.NewInt(0), x)
			}
			return mk(x, y)
		}
	case "crossfmt": // a VALID encoding in the other format: 64 bytes x || y for the compressed decoders, 32 bytes x for the uncompressed one
		x := findX(p, "valid")
		if unc {
			return be32(x)
		}
		return append(be32(x), be32(yOf(x))...)
	case "double": // x || x
		x := findX(p, "valid")
		return append(be32(x), be32(x)...)
	case "xpad": // x followed by 32 zero bytes / (uncompressed decoder) x || y followed by 32 zero bytes
		x := findX(p, "valid")
		return append(mk(x, yOf(x)), make([]byte, 32)...)
	case "zero":
		return mk(big.NewInt(0), yOf(big.NewInt(0)))
	case "one":
		return mk(one, yOf(one))
	case "p-1":
		x := new(big.Int).Sub(modP, one)
		return mk(x, yOf(x))
	case "p":
		return mk(modP, yOf(big.NewInt(0)))
	case "max":
		x := new(big.Int).Sub(two256, one)
		return mk(x, yOf(x))
	case "small":
		x := big.NewInt(int64(i))
		return mk(x, yOf(x))
	case "wrongsign": // uncompressed only: the smaller root
		x := findX(p, "valid")
		return mk(x, new(big.Int).Sub(modP, yOf(x)))
	case "yplusp":
		x := findX(p, "valid")
		y := new(big.Int).Add(yOf(x), modP)
		if y.Cmp(two256) >= 0 {
			y = yOf(x)
			y.Add(y, big.NewInt(1))
		}
		return mk(x, y)
	case "yother":
		x := findX(p, "valid")
		return mk(x, yOf(findX(p, "valid")))
	case "yzero":
		x := findX(p, "valid")
		return mk(x, big.NewInt(0))
	case "short":
		b := mk(findX(p, "valid"), one)
		return b[:len(b)-1]
	case "long":
		x := findX(p, "valid")
		return append(mk(x, yOf(x)), 0)
	case "empty":
		return []byte{}
	case "half":
		x := findX(p, "valid")
		b := mk(x, yOf(x))
		return b[:len(b)/2]
	default:
		return p.bytes(map[bool]int{false: 32, true: 64}[unc])
	}
}

func (d *driver) runDecodeCase(w emitter, k int, c *decCase) {
	for i := 0; i < c.N; i++ {
		buf := d.decodeInput(c, i)
		before := append([]byte(nil), buf...)
		e := ev{"ev": "decode", "k": k, "fn": c.Fn, "cls": c.Cls, "buf": bytesToInts(before)}
		func() {
			defer func() {
				if r := recover(); r != nil {
					e["panic"] = fmt.Sprint(r)
				}
			}()
			// history: for every second member the TRUSTED decoders see the same bytes first (whatever they leave behind - caches keyed by
			// the encoding, hints - must not change what the untrusted decoder decides)
			if i%2 == 1 && c.Cls != "relpair" {
				func() {
					defer func() { recover() }()
					var t1, t2 banderwagon.Element
					if len(buf) >= 32 {
						t1.SetBytesUnsafe(buf[:32])
					}
					if len(buf) == 64 {
						t2.SetBytesUncompressed(buf, true)
					}
				}()
				e["pre"] = "trusted"
			}
			var el banderwagon.Element
			var err error
			switch c.Fn {
			case "SetBytes":
				err = el.SetBytes(buf)
			case "SetBytesUncompressed":
				err = el.SetBytesUncompressed(buf, false)
			case "ReadPoint":
				var pe *banderwagon.Element
				pe, err = common.ReadPoint(&chunkReader{data: append([]byte(nil), buf...), step: 5})
				if err == nil {
					el = *pe
				}
			}
			e["err"] = err != nil
			// the same call on a receiver that already holds another (non-normalised) element
			if c.Fn != "ReadPoint" {
				cfg := getConf()
				var used banderwagon.Element
				used.Add(&cfg.SRS[1], &cfg.SRS[2])
				var err2 error
				if c.Fn == "SetBytes" {
					err2 = used.SetBytes(buf)
				} else {
					err2 = used.SetBytesUncompressed(buf, false)
				}
				e["err_used"] = err2 != nil
				if err2 == nil {
					e["out_used"] = coords(&used)
				}
			}
			if err == nil {
				e["out"] = coords(&el)
				if c.Fn == "SetBytesUncompressed" {
					b := el.BytesUncompressedTrusted()
					e["reenc"] = bytesToInts(b[:])
				} else {
					b := el.Bytes()
					e["reenc"] = bytesToInts(b[:])
				}
			}
		}()
		e["buf_unchanged"] = bytes.Equal(buf, before)
		w.emit(e)
	}
}
