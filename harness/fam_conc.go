package main

import (
	"bytes"
	"crypto/sha256"
	"encoding/json"
	"fmt"
	"math/big"
	"runtime"
	"sync"
	"sync/atomic"
	"time"

	multiproof "github.com/crate-crypto/go-ipa"
	"github.com/crate-crypto/go-ipa/bandersnatch/fr"
	"github.com/crate-crypto/go-ipa/banderwagon"
	"github.com/crate-crypto/go-ipa/common"
	"github.com/crate-crypto/go-ipa/ipa"
)

// ---- family "conc": K goroutines share one configuration (C12).  Every call is first executed alone
//      (sequential pass), then all goroutines run their calls at the same time; the digests of the replies,
//      the configuration fingerprints and the sensors (watchdog here, race detector around the process) are logged ----

type concProg struct {
	K      int      `json:"k"`
	GMP    int      `json:"gomaxprocs"` // > 0: runtime.GOMAXPROCS(GMP) around the program
	EnvGMP int      `json:"envgmp"`     // > 0: the whole driver process was started with GOMAXPROCS=EnvGMP in its environment
	Calls  []string `json:"calls"`
	Reps   int      `json:"reps"`  // each goroutine runs its call list this many times (0 = once), with fresh arguments each time
	Fresh  bool     `json:"fresh"` // a configuration created for this program; the CONCURRENT pass runs first (first uses of lazily built state race),
	// all goroutines start every position together, and the reference values are computed afterwards
}

// a call that blocks forever poisons the process (its goroutines keep whatever they hold): after a hang no further program is run
var concDead bool

// a serialised three-opening multiproof (built once per process, before it is needed concurrently)
var serdeOnce sync.Once
var serdeBytes []byte

func serdeProofBytes(cfg *ipa.IPAConfig) []byte {
	serdeOnce.Do(func() {
		rnd := newPrg("serde-proof")
		fs := make([][]fr.Element, 3)
		cs := make([]*banderwagon.Element, 3)
		zs := []uint8{0, 77, 255}
		for j := range fs {
			fs[j] = polyClass("random", j, rnd)
			c := cfg.Commit(fs[j])
			cs[j] = &c
		}
		p, err := multiproof.CreateMultiProof(common.NewTranscript("serde"), cfg, cs, fs, zs)
		if err != nil {
			panic(err)
		}
		var buf bytes.Buffer
		p.Write(&buf)
		serdeBytes = buf.Bytes()
	})
	return serdeBytes
}

// one call of goroutine g, position i: deterministic in (seed, g, i); returns a digest of everything it returned
func (d *driver) concCall(cfg *ipa.IPAConfig, op string, g, i int) []int {
	rnd := newPrg("conc", d.seed, g, i, op)
	h := sha256.New()
	switch op {
	case "commit":
		f := polyClass("random", 0, rnd)
		c := cfg.Commit(f)
		b := c.Bytes()
		h.Write(b[:])
	case "provez", "dividez", "ipaz":
		// position i uses an index / point no earlier position used, and every goroutine uses the same one
		z := uint8((i*37 + 11) % 256)
		f := polyClass("random", 3, rnd)
		switch op {
		case "dividez":
			q := cfg.PrecomputedWeights.DivideOnDomain(z, f)
			for j := range q {
				b := q[j].Bytes()
				h.Write(b[:])
			}
			bc := cfg.PrecomputedWeights.ComputeBarycentricCoefficients(frFromBig(big.NewInt(int64(1000 + i))))
			b := bc[int(z)].Bytes()
			h.Write(b[:])
		case "ipaz":
			c := cfg.Commit(f)
			pt := frFromBig(big.NewInt(int64(300 + i)))
			p, err := ipa.CreateIPAProof(common.NewTranscript("conc-ipaz"), cfg, c, f, pt)
			if err == nil {
				var buf bytes.Buffer
				p.Write(&buf)
				h.Write(buf.Bytes())
			}
		default:
			c := cfg.Commit(f)
			g2 := polyClass("small", 4, rnd)
			c2 := cfg.Commit(g2)
			p, err := multiproof.CreateMultiProof(common.NewTranscript("conc-z"), cfg, []*banderwagon.Element{&c, &c2}, [][]fr.Element{f, g2}, []uint8{z, z + 1})
			if err == nil {
				var buf bytes.Buffer
				p.Write(&buf)
				h.Write(buf.Bytes())
				y1, y2 := f[z], g2[z+1]
				ok, _ := multiproof.CheckMultiProof(common.NewTranscript("conc-z"), cfg, p, []*banderwagon.Element{&c, &c2}, []*fr.Element{&y1, &y2}, []uint8{z, z + 1})
				h.Write([]byte(fmt.Sprint(ok)))
			}
		}
	case "prove", "bigprove":
		n := 1 + (g+i)%6
		if op == "bigprove" { // enough openings for more than a kilobyte of pending transcript data and for every grouping worker to get a batch
			n = 12 + (g+i)%24
		}
		fs := make([][]fr.Element, n)
		cs := make([]*banderwagon.Element, n)
		zs := make([]uint8, n)
		ys := make([]*fr.Element, n)
		for j := 0; j < n; j++ {
			fs[j] = polyClass([]string{"random", "small", "unit"}[j%3], j, rnd)
			c := cfg.Commit(fs[j])
			cs[j] = &c
			zs[j] = uint8(rnd.intn(256))
			y := fs[j][zs[j]]
			ys[j] = &y
		}
		tr := common.NewTranscript("conc")
		p, err := multiproof.CreateMultiProof(tr, cfg, cs, fs, zs)
		if err != nil {
			h.Write([]byte("err:" + err.Error()))
			break
		}
		var buf bytes.Buffer
		p.Write(&buf)
		h.Write(buf.Bytes())
		vtr := common.NewTranscript("conc")
		ok, verr := multiproof.CheckMultiProof(vtr, cfg, p, cs, ys, zs)
		h.Write([]byte(fmt.Sprint(ok, verr == nil)))
		ch := vtr.ChallengeScalar([]byte("s"))
		cb := ch.Bytes()
		h.Write(cb[:])
	case "ipa":
		f := polyClass("random", 1, rnd)
		c := cfg.Commit(f)
		pt := frFromBig(pointValue([]string{"3", "255", "256", "rnd"}[(g+i)%4], rnd))
		tr := common.NewTranscript("conc-ipa")
		p, err := ipa.CreateIPAProof(tr, cfg, c, f, pt)
		if err != nil {
			h.Write([]byte("err"))
			break
		}
		var buf bytes.Buffer
		p.Write(&buf)
		h.Write(buf.Bytes())
		b := ipa.VerifComputeBVector(cfg, pt)
		y, _ := ipa.InnerProd(f, b)
		vtr := common.NewTranscript("conc-ipa")
		ok, _ := ipa.CheckIPAProof(vtr, cfg, c, p, pt, y)
		h.Write([]byte(fmt.Sprint(ok)))
	case "msm":
		n := []int{2, 3, 40, 256}[(g+i)%4]
		sc := make([]fr.Element, n)
		for j := range sc {
			sc[j] = rnd.fr()
		}
		r, err := ipa.MultiScalar(cfg.SRS[:n], sc)
		b := r.Bytes()
		h.Write(b[:])
		h.Write([]byte(fmt.Sprint(err == nil)))
	case "codec":
		var e banderwagon.Element
		s := rnd.fr()
		e.ScalarMul(&cfg.SRS[(g*7+i)%256], &s)
		b := e.Bytes()
		var e2 banderwagon.Element
		err := e2.SetBytes(b[:])
		u := e.BytesUncompressedTrusted()
		var e3 banderwagon.Element
		err3 := e3.SetBytesUncompressed(u[:], false)
		h.Write(b[:])
		h.Write([]byte(fmt.Sprint(err == nil, e2.Equal(&e), err3)))
		var m fr.Element
		e2.MapToScalarField(&m)
		mb := m.Bytes()
		h.Write(mb[:])
		le := s.BytesLE()
		var s2 fr.Element
		s2.SetBytesLE(le[:])
		h.Write([]byte(fmt.Sprint(s2 == s)))
	case "batch":
		n := 3 + (g+i)%5
		cp := make([]banderwagon.Element, n)
		ptrs := make([]*banderwagon.Element, n)
		for j := range cp {
			cp[j] = applyRep(cfg.SRS[(g+i+j)%256], []string{"proj", "flip", "norm"}[j%3], rnd)
			ptrs[j] = &cp[j]
		}
		for _, b := range banderwagon.ElementsToBytes(ptrs...) {
			h.Write(b[:])
		}
		err := banderwagon.BatchNormalize(ptrs)
		h.Write([]byte(fmt.Sprint(err == nil)))
		for j := range cp {
			b := cp[j].Bytes()
			h.Write(b[:])
		}
	case "bigbatch":
		// the batch helpers on ~100 projective elements, 20 times over: long and dense enough for two calls to be inside their
		// loops at the same time (the arguments come from a read-only pool built once, so nearly all the time is library time)
		n := 96 + (g+i)%33
		pool := projPool(cfg)
		cp := make([]banderwagon.Element, n)
		ptrs := make([]*banderwagon.Element, n)
		for j := range cp {
			cp[j] = pool[(g*11+i+3*j)%len(pool)]
			ptrs[j] = &cp[j]
		}
		for rep := 0; rep < 20; rep++ {
			for _, b := range banderwagon.ElementsToBytes(ptrs...) {
				h.Write(b[:])
			}
			for _, b := range banderwagon.BatchToBytesUncompressed(ptrs...) {
				h.Write(b[:])
			}
		}
		ms := make([]fr.Element, n)
		mp := make([]*fr.Element, n)
		for j := range ms {
			mp[j] = &ms[j]
		}
		for rep := 0; rep < 5; rep++ {
			err := banderwagon.BatchMapToScalarField(mp, ptrs)
			h.Write([]byte(fmt.Sprint(err == nil)))
			for j := range ms {
				b := ms[j].Bytes()
				h.Write(b[:])
			}
		}
		err := banderwagon.BatchNormalize(ptrs)
		h.Write([]byte(fmt.Sprint(err == nil)))
		for j := range cp {
			b := cp[j].Bytes()
			h.Write(b[:])
		}
	case "dupbatch":
		// BatchNormalize / ElementsToBytes on a LONG list that names the same few projective elements again and again (a prover's
		// commitment list with one commitment opened at many points), so that every internal worker's range holds occurrences of the
		// same pointer: whatever the workers do per occurrence they do at the same moment on the same element.  The reply holds the
		// full coordinates afterwards (a value rescaled twice has Z = 1 and is still a multiple of the same x/y).
		nd := 2 + (g+i)%3
		pool := projPool(cfg)
		for rep := 0; rep < 8; rep++ {
			cp := make([]banderwagon.Element, nd)
			for j := range cp {
				cp[j] = pool[(g*13+i*5+rep*3+j)%len(pool)]
			}
			n := 64 + 37*((g+i+rep)%9)
			ptrs := make([]*banderwagon.Element, n)
			for j := range ptrs {
				ptrs[j] = &cp[j%nd]
			}
			err := banderwagon.BatchNormalize(ptrs)
			h.Write([]byte(fmt.Sprint(err == nil)))
			for j := range cp {
				b := cp[j].BytesUncompressedTrusted()
				h.Write(b[:])
				h.Write([]byte(fmt.Sprint(cp[j].Equal(&pool[(g*13+i*5+rep*3+j)%len(pool)]))))
			}
			for _, b := range banderwagon.ElementsToBytes(ptrs[:n/2]...) {
				h.Write(b[:])
			}
		}
	case "serde":
		// (de)serialisation and every scalar decoder / printer: proofs read back from their bytes and written again, canonical and
		// reducing scalar decoders, decimal strings, big integers above the modulus - the helpers that borrow pooled temporaries
		pb := serdeProofBytes(cfg)
		var mp multiproof.MultiProof
		rerr := mp.Read(bytes.NewReader(pb))
		var out bytes.Buffer
		if rerr == nil {
			mp.Write(&out)
		}
		h.Write(out.Bytes())
		h.Write([]byte(fmt.Sprint(rerr == nil, bytes.Equal(out.Bytes(), pb))))
		var ip ipa.IPAProof
		ierr := ip.Read(bytes.NewReader(pb[32:]))
		var out2 bytes.Buffer
		if ierr == nil {
			ip.Write(&out2)
		}
		h.Write(out2.Bytes())
		for j := 0; j < 6; j++ {
			v := rnd.big(300)
			if j%2 == 0 {
				v.Mod(v, modR)
			}
			le := make([]byte, 32)
			vb := new(big.Int).Mod(v, two256).Bytes()
			for t := range vb {
				le[t] = vb[len(vb)-1-t]
			}
			var a, b2, c2, d2, e2 fr.Element
			a.SetBytesLE(le)
			b2.SetBytes(new(big.Int).Mod(v, two256).Bytes())
			_, cerr := c2.SetBytesLECanonical(le)
			d2.SetBigInt(v)
			var serr error
			func() {
				defer func() {
					if r := recover(); r != nil {
						serr = fmt.Errorf("%v", r)
					}
				}()
				e2.SetString(v.String())
			}()
			sc, rserr := common.ReadScalar(bytes.NewReader(le))
			for _, x := range []*fr.Element{&a, &b2, &c2, &d2, &e2} {
				xb := x.Bytes()
				h.Write(xb[:])
				h.Write([]byte(x.String()))
			}
			if rserr == nil {
				xb := sc.Bytes()
				h.Write(xb[:])
			}
			h.Write([]byte(fmt.Sprint(cerr == nil, serr == nil, rserr == nil)))
		}
	case "transcript":
		tr := common.NewTranscript("conc-tr")
		for j := 0; j < 5; j++ {
			s := rnd.fr()
			tr.AppendScalar(&s, []byte("s"))
			tr.AppendPoint(&cfg.SRS[(g+j)%256], []byte("P"))
		}
		c := tr.ChallengeScalar([]byte("c"))
		b := c.Bytes()
		h.Write(b[:])
	case "poly":
		f := polyClass("random", 2, rnd)
		q := cfg.PrecomputedWeights.DivideOnDomain(uint8((g*31+i)%256), f)
		for j := range q {
			b := q[j].Bytes()
			h.Write(b[:])
		}
		bc := cfg.PrecomputedWeights.ComputeBarycentricCoefficients(frFromBig(big.NewInt(int64(1000 + g + i))))
		b := bc[7].Bytes()
		h.Write(b[:])
	}
	return bytesToInts(h.Sum(nil))
}

var (
	projOnce sync.Once
	projElts []banderwagon.Element
)

// 512 valid elements in projective form (Z != 1, all different), built once, never written afterwards
func projPool(cfg *ipa.IPAConfig) []banderwagon.Element {
	projOnce.Do(func() {
		projElts = make([]banderwagon.Element, 512)
		for i := range projElts {
			projElts[i].Add(&cfg.SRS[i%256], &cfg.SRS[(i*7+1+i/256)%256])
			if i%5 == 0 {
				projElts[i].Double(&projElts[i])
			}
		}
	})
	return projElts
}

func (d *driver) runConcProgram(w emitter, pid int, line []byte) {
	var p concProg
	if err := json.Unmarshal(line, &p); err != nil {
		panic(fmt.Sprintf("bad conc program %d: %v", pid, err))
	}
	cfg := getConf()
	if concDead {
		return
	}
	if p.Fresh {
		nc, err := ipa.NewIPASettings()
		if err != nil {
			panic(err)
		}
		cfg = nc
	}
	if p.EnvGMP > 0 && runtime.GOMAXPROCS(0) != p.EnvGMP {
		panic(fmt.Sprintf("conc program %d wants a process started with GOMAXPROCS=%d, this one has %d", pid, p.EnvGMP, runtime.GOMAXPROCS(0)))
	}
	if p.GMP > 0 {
		runtime.GOMAXPROCS(p.GMP)
	}
	K := p.K
	if p.Reps > 1 { // unroll: position i of the unrolled list determines the arguments
		base := p.Calls
		p.Calls = nil
		for r := 0; r < p.Reps; r++ {
			p.Calls = append(p.Calls, base...)
		}
	}
	w.emit(ev{"ev": "fp", "prog": pid, "when": "before", "cfg": fpConfig(cfg), "pkg": fpPackage()})
	// sequential pass (before the concurrent one, except for fresh-configuration programs)
	seq := make([][][]int, K)
	var seqReturned atomic.Int64
	sequentialBody := func() {
		for g := 0; g < K; g++ {
			seq[g] = make([][]int, len(p.Calls))
			for i := range p.Calls {
				seq[g][i] = d.concCall(cfg, p.Calls[(i+g)%len(p.Calls)], g, i)
				seqReturned.Add(1)
			}
		}
	}
	// the reference pass runs under the same watchdog: a call that blocks forever even when executed ALONE is reported as a hang
	// (with goroutines 1 in the event) instead of stalling the driver until the runner's timeout
	seqHung := false
	sequential := func() {
		if !stallWatchdog(sequentialBody, &seqReturned, 240*time.Second, 1800*time.Second) {
			buf := make([]byte, 1<<16)
			n := runtime.Stack(buf, true)
			w.emit(ev{"ev": "hang", "prog": pid, "k": 1, "gomaxprocs": p.GMP, "envgmp": p.EnvGMP, "returned": int(seqReturned.Load()), "of": K * len(p.Calls), "stacks": string(buf[:n])})
			concDead = true
			seqHung = true
		}
	}
	if !p.Fresh {
		sequential()
		if seqHung {
			return
		}
	}
	// per-position barriers for fresh programs: every goroutine starts position i at the same moment
	bars := make([]sync.WaitGroup, len(p.Calls))
	if p.Fresh {
		for i := range bars {
			bars[i].Add(K)
		}
	}
	// concurrent pass
	conc := make([][][]int, K)
	panics := make([]string, K)
	var start, done sync.WaitGroup
	var returned atomic.Int64
	start.Add(1)
	done.Add(K)
	for g := 0; g < K; g++ {
		conc[g] = make([][]int, len(p.Calls))
		go func(g int) {
			defer done.Done()
			defer func() {
				if r := recover(); r != nil {
					panics[g] = fmt.Sprint(r)
				}
			}()
			start.Wait()
			for i := range p.Calls {
				if p.Fresh {
					bars[i].Done()
					bars[i].Wait()
				}
				conc[g][i] = d.concCall(cfg, p.Calls[(i+g)%len(p.Calls)], g, i)
				returned.Add(1)
			}
		}(g)
	}
	// watchdog: no call at all returns for 240 s while calls are outstanding (alone, the slowest call takes well under a second;
	// K goroutines under the race detector on one P stay far below that), or the program exceeds 30 minutes
	finished := stallWatchdog(func() { start.Done(); done.Wait() }, &returned, 240*time.Second, 1800*time.Second)
	if !finished {
		buf := make([]byte, 1<<16)
		n := runtime.Stack(buf, true)
		w.emit(ev{"ev": "hang", "prog": pid, "k": K, "gomaxprocs": p.GMP, "envgmp": p.EnvGMP, "returned": int(returned.Load()), "of": K * len(p.Calls), "stacks": string(buf[:n])})
		concDead = true
		return
	}
	if p.Fresh {
		sequential()
		if seqHung {
			return
		}
	}
	for g := 0; g < K; g++ {
		if panics[g] != "" {
			w.emit(ev{"ev": "concpanic", "prog": pid, "g": g, "panic": panics[g]})
		}
		for i := range p.Calls {
			if conc[g][i] == nil { // never made: the goroutine panicked before (the concpanic event above is the deviation)
				continue
			}
			w.emit(ev{"ev": "conc", "prog": pid, "g": g, "i": i, "op": p.Calls[(i+g)%len(p.Calls)], "k": K, "gomaxprocs": p.GMP, "envgmp": p.EnvGMP, "fresh": p.Fresh, "seq": seq[g][i], "conc": conc[g][i]})
		}
	}
	w.emit(ev{"ev": "fp", "prog": pid, "when": "after", "cfg": fpConfig(cfg), "pkg": fpPackage()})
	if p.GMP > 0 {
		runtime.GOMAXPROCS(runtime.NumCPU())
	}
}

// stallWatchdog runs f; false when `progress` has not moved for `stall` or f takes longer than `total`
func stallWatchdog(f func(), progress *atomic.Int64, stall, total time.Duration) bool {
	done := make(chan struct{})
	go func() { f(); close(done) }()
	t0 := time.Now()
	last, lastAt := progress.Load(), time.Now()
	tick := time.NewTicker(500 * time.Millisecond)
	defer tick.Stop()
	for {
		select {
		case <-done:
			return true
		case <-tick.C:
			if v := progress.Load(); v != last {
				last, lastAt = v, time.Now()
			}
			if time.Since(lastAt) > stall || time.Since(t0) > total {
				return false
			}
		}
	}
}
