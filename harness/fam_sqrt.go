package main

import (
	"math/big"
	"sort"

	"github.com/crate-crypto/go-ipa/bandersnatch"
	"github.com/crate-crypto/go-ipa/bandersnatch/fp"
)

// ---- family "sqrt": base-field square root, point recovery, exported tables (C17) ----

type sqrtCase struct {
	Kind   string `json:"kind"`   // dlog | special | random | point | tables
	Blk    int    `json:"blk"`    // which 8-bit block of the 32-bit dyadic dlog is swept over 0..255
	Others string `json:"others"` // other blocks: zero | rnd
	Odd    string `json:"odd"`    // odd-order factor: one | rnd
	N      int    `json:"n"`
	Val    string `json:"val"`
}

func fpRegBig(e *fp.Element) *big.Int { var b big.Int; e.BigInt(&b); return &b }

func (d *driver) sqrtEvent(w emitter, k int, label string, v *big.Int) {
	x := fpFromBig(v)
	before := x
	r := fp.SqrtPrecomp(&x)
	e := ev{"ev": "sqrt", "k": k, "cls": label, "v": limbsOfBig(new(big.Int).Mod(v, modP)), "unchanged": x == before}
	if r == nil {
		e["nil"] = true
	} else {
		e["nil"] = false
		e["out"] = fpReg(r)
	}
	w.emit(e)
}

func (d *driver) pointEvent(w emitter, k int, label string, v *big.Int) {
	d.pointEventFlags(w, k, label, v, []bool{true, false})
}

func (d *driver) pointEventFlags(w emitter, k int, label string, v *big.Int, flags []bool) {
	for _, largest := range flags {
		x := fpFromBig(v)
		before := x
		p := bandersnatch.GetPointFromX(&x, largest)
		e := ev{"ev": "pointfromx", "k": k, "cls": label, "x": limbsOfBig(new(big.Int).Mod(v, modP)), "largest": largest, "unchanged": x == before}
		if p == nil {
			e["nil"] = true
		} else {
			e["nil"] = false
			e["px"] = fpReg(&p.X)
			e["py"] = fpReg(&p.Y)
		}
		w.emit(e)
	}
}

func (d *driver) runSqrtCase(w emitter, k int, c *sqrtCase) {
	g0 := fp.VerifSqrtDyadicRoot(0)
	g := fpRegBig(&g0) // primitive 2^32-th root of unity
	one := big.NewInt(1)
	rnd := newPrg("sqrt", d.seed, k)
	switch c.Kind {
	case "dlog":
		for val := 0; val < 256; val++ {
			exp := uint64(val) << (8 * uint(c.Blk))
			if c.Others == "rnd" {
				r := uint64(rnd.intn(1<<31))<<1 | uint64(rnd.intn(2))
				mask := uint64(0xff) << (8 * uint(c.Blk))
				exp = (r &^ mask) | exp
			}
			v := new(big.Int).Exp(g, new(big.Int).SetUint64(exp&0xffffffff), modP)
			if c.Odd == "rnd" {
				u := rnd.big(300)
				u.Mod(u, modP)
				if u.Sign() == 0 {
					u.SetInt64(3)
				}
				u.Exp(u, new(big.Int).Lsh(one, 32), modP) // element of odd order
				v.Mul(v, u).Mod(v, modP)
			}
			d.sqrtEvent(w, k, "dlog", v)
		}
	case "special":
		m := map[string]*big.Int{"0": big.NewInt(0), "1": one, "2": big.NewInt(2), "4": big.NewInt(4), "p-1": new(big.Int).Sub(modP, one),
			"p-2": new(big.Int).Sub(modP, big.NewInt(2)), "5": big.NewInt(5), "h": new(big.Int).Rsh(modP, 1), "g": g, "g2": new(big.Int).Exp(g, big.NewInt(2), modP)}
		d.sqrtEvent(w, k, "special", m[c.Val])
		d.pointEvent(w, k, "special", m[c.Val])
		// ... and once more, every special value, after the point recoveries above (whatever they left behind must not matter)
		for _, name := range []string{"0", "1", "p-1", "4", "g", "g2", "2", "5"} {
			d.sqrtEvent(w, k, "special-again", m[name])
		}
		d.pointEvent(w, k, "special-again", big.NewInt(0))
	case "stored":
		// values chosen by their STORED (Montgomery) words: every pattern of the four 64-bit limbs over {0, 1, random} (top limb kept
		// below the modulus' top limb), i.e. elements like fp.Element{0,0,0,k} on which a limb-wise shortcut (zero test, comparison)
		// decides differently from the value; each as a square-root input, its square, and - built from the ratio side - as the
		// u = (a x^2 - 1)/(d x^2 - 1) of an x-coordinate handed to GetPointFromX
		rinv := new(big.Int).ModInverse(new(big.Int).Lsh(one, 256), modP)
		for pat := 0; pat < 81; pat++ {
			wv := new(big.Int)
			q := pat
			for limb := 0; limb < 4; limb++ {
				var l *big.Int
				switch q % 3 {
				case 0:
					l = big.NewInt(0)
				case 1:
					l = big.NewInt(1)
				default:
					l = rnd.big(60)
					l.Add(l, big.NewInt(2))
				}
				q /= 3
				wv.Add(wv, new(big.Int).Lsh(l, uint(64*limb)))
			}
			v := new(big.Int).Mul(wv, rinv)
			v.Mod(v, modP)
			d.sqrtEvent(w, k, "stored", v)
			sq := new(big.Int).Mul(v, v)
			d.sqrtEvent(w, k, "stored-square", sq.Mod(sq, modP))
			// x^2 = (u - 1)/(u d - a)
			den := subm(mulm(v, curveD), curveA)
			if den.Sign() != 0 {
				x2 := mulm(subm(v, one), new(big.Int).ModInverse(den, modP))
				if x := new(big.Int).ModSqrt(x2, modP); x != nil {
					d.pointEvent(w, k, "stored-ratio", x)
				}
			}
		}
	case "random":
		for i := 0; i < c.N; i++ {
			v := rnd.big(300)
			d.sqrtEvent(w, k, "random", v.Mod(v, modP))
		}
	case "square":
		for i := 0; i < c.N; i++ {
			v := rnd.big(300)
			v.Mod(v, modP)
			v.Mul(v, v).Mod(v, modP)
			d.sqrtEvent(w, k, "square", v)
		}
	case "yside":
		// x-coordinates built from the y side: the larger root sits at the boundary of the sign choice ((p-1)/2 limb by limb, p-1)
		for i := 0; i < c.N; i++ {
			dc := decCase{Fn: "SetBytesUncompressed", Cls: []string{"yhalf", "yhalf64", "yhalf128", "yhalf192", "ytop", "ypat"}[i%6]}
			buf := (&driver{seed: d.seed + k}).decodeInput(&dc, i)
			d.pointEvent(w, k, "yside/"+dc.Cls, new(big.Int).SetBytes(buf[:32]))
		}
	case "relatives":
		// histories "x, then a value that a cheap digest of x's limbs cannot tell from x" - in the canonical digits and in the stored
		// (Montgomery) words, for the recovery with each flag and for the square root: every answer must be the one for ITS input
		rinv := new(big.Int).ModInverse(two256, modP)
		form := func(l [4]uint64, stored bool) *big.Int {
			v := bigOfWords(l)
			if stored {
				v.Mul(v, rinv).Mod(v, modP)
			}
			return v
		}
		for i := 0; i < c.N; i++ {
			var base [4]uint64
			for j := range base {
				base[j] = rnd.big(60).Uint64() | 1
			}
			names, rels := limbRelatives(base, rnd)
			if i%3 == 0 {
				base = [4]uint64{}
				names, rels = zeroRelatives(rnd)
			}
			for _, stored := range []bool{false, true} {
				tag := "canon"
				if stored {
					tag = "stored"
				}
				for j := range rels {
					for _, f := range []bool{true, false} {
						d.pointEventFlags(w, k, "rel/base", form(base, stored), []bool{f})
						d.pointEventFlags(w, k, "rel/"+tag+"/"+names[j], form(rels[j], stored), []bool{f})
					}
					d.sqrtEvent(w, k, "rel/base", form(base, stored))
					d.sqrtEvent(w, k, "rel/"+tag+"/"+names[j], form(rels[j], stored))
				}
			}
		}
	case "point":
		for i := 0; i < c.N; i++ {
			v := rnd.big(300)
			d.pointEvent(w, k, "point", v.Mod(v, modP))
		}
	case "tables":
		blocks := make([][][]int, fp.VerifSqrtBlocks)
		for i := 0; i < fp.VerifSqrtBlocks; i++ {
			blocks[i] = make([][]int, 1<<fp.VerifSqrtBlockSize)
			for j := range blocks[i] {
				t := fp.VerifSqrtBlockEntry(i, j)
				blocks[i][j] = fpReg(&t)
			}
		}
		roots := make([][]int, 33)
		for i := range roots {
			t := fp.VerifSqrtDyadicRoot(i)
			roots[i] = fpReg(&t)
		}
		lut := fp.VerifSqrtLUT()
		keys := make([]int, 0, len(lut))
		for kk := range lut {
			keys = append(keys, int(kk))
		}
		sort.Ints(keys)
		pairs := make([][]int, len(keys))
		for i, kk := range keys {
			pairs[i] = []int{kk, int(lut[uint16(kk)])}
		}
		w.emit(ev{"ev": "sqrt_tables", "k": k, "blocks": blocks, "roots": roots, "lut": pairs})
	}
}
