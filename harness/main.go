package main

import (
	"bufio"
	"encoding/json"
	"errors"
	"flag"
	"fmt"
	"os"
	"runtime"
	"strconv"
	"sync"
)

var errEOF = errors.New("EOF")

var (
	markerFile string
	fromProg   int
	onlyProg   = -1
	allShards  *shards
)

func init() { errEOF = ioEOF() }

type driver struct {
	seed int
}

func main() {
	fam := flag.String("fam", "", "family")
	in := flag.String("in", "", "programs (JSON lines)")
	out := flag.String("out", "", "trace file prefix")
	nsh := flag.Int("shards", 16, "number of trace shards")
	seed := flag.Int("seed", 1, "seed")
	flag.StringVar(&markerFile, "marker", "", "serial mode: write the index of each program to this file before running it, flush after it")
	flag.IntVar(&fromProg, "from", 0, "skip programs with a smaller index")
	flag.IntVar(&onlyProg, "only", -1, "run only this program")
	flag.Parse()
	if s := os.Getenv("VERIF_SEED"); s != "" && !isFlagSet("seed") {
		if v, err := strconv.Atoi(s); err == nil {
			*seed = v
		}
	}
	d := &driver{seed: *seed}
	sh := newShards(*out, *nsh)
	allShards = sh
	defer sh.close()
	switch *fam {
	case "field":
		// stateless events: spread round-robin over the shards
		rr := &roundRobin{sh: sh}
		forEachLine(*in, 1, func(shard, k int, line []byte) {
			var c fieldCase
			if err := json.Unmarshal(line, &c); err != nil {
				panic(fmt.Sprintf("bad program line %d: %v", k, err))
			}
			d.runFieldCase(rr, k, &c)
		})
	default:
		if !d.runOtherFamily(*fam, *in, sh) {
			fmt.Fprintln(os.Stderr, "unknown family", *fam)
			os.Exit(2)
		}
	}
	fmt.Printf("DRIVER fam=%s events=%d numcpu=%d gomaxprocs=%d\n", *fam, sh.total(), runtime.NumCPU(), runtime.GOMAXPROCS(0))
}

func isFlagSet(name string) bool {
	set := false
	flag.Visit(func(f *flag.Flag) {
		if f.Name == name {
			set = true
		}
	})
	return set
}

// forEachLine runs f over the lines of a file; line k goes to shard k % n; shards run concurrently,
// lines of one shard sequentially in order.
func forEachLine(path string, n int, f func(shard, k int, line []byte)) {
	fh, err := os.Open(path)
	if err != nil {
		panic(err)
	}
	defer fh.Close()
	sc := bufio.NewScanner(fh)
	sc.Buffer(make([]byte, 1<<20), 1<<28)
	chans := make([]chan [2]interface{}, n)
	var wg sync.WaitGroup
	for i := 0; i < n; i++ {
		chans[i] = make(chan [2]interface{}, 64)
		wg.Add(1)
		go func(i int) {
			defer wg.Done()
			for it := range chans[i] {
				f(i, it[0].(int), it[1].([]byte))
			}
		}(i)
	}
	k := 0
	for sc.Scan() {
		b := append([]byte(nil), sc.Bytes()...)
		if len(b) == 0 {
			continue
		}
		if k < fromProg || (onlyProg >= 0 && k != onlyProg) {
			k++
			continue
		}
		if markerFile != "" {
			// serial mode: one program at a time, its index recorded before it starts, traces flushed after it
			os.WriteFile(markerFile, []byte(strconv.Itoa(k)), 0o644)
			f(0, k, b)
			if allShards != nil {
				for _, w := range allShards.ws {
					w.w.Flush()
				}
			}
			k++
			continue
		}
		chans[k%n] <- [2]interface{}{k, b}
		k++
	}
	for i := 0; i < n; i++ {
		close(chans[i])
	}
	wg.Wait()
}
