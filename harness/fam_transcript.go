package main

import (
	"crypto/sha256"
	"encoding/binary"
	"encoding/json"
	"fmt"
	"math/big"
	"strconv"
	"strings"

	"github.com/crate-crypto/go-ipa/bandersnatch/fp"
	"github.com/crate-crypto/go-ipa/bandersnatch/fr"
	"github.com/crate-crypto/go-ipa/banderwagon"
	"github.com/crate-crypto/go-ipa/common"
)

// ---- family "transcript" (C14) ----

type top struct {
	Op    string `json:"op"`
	Label string `json:"label"`
	Arg   string `json:"arg"`
}
type tprog struct {
	Ops  []top `json:"ops"`
	Twin struct {
		Kind string `json:"kind"`
		Pos  int    `json:"pos"`
	} `json:"twin"`
}

// labels: literals, "long40", or "L<n>": n pattern bytes (lengths around the SHA-256 block and padding boundaries: a label is staged,
// buffered and hashed like any other input); a twin's trailing primes stay literal bytes behind the pattern
func labelBytes(l string) []byte {
	base := strings.TrimRight(l, "'")
	primes := l[len(base):]
	if base == "long40" {
		return append([]byte(strings.Repeat("0123456789", 4)), primes...)
	}
	if strings.HasPrefix(base, "L") && len(base) > 1 {
		if n, err := strconv.Atoi(base[1:]); err == nil {
			b := make([]byte, n)
			for i := range b {
				b[i] = byte('A' + (i*11+n)%53)
			}
			return append(b, primes...)
		}
	}
	return []byte(l)
}

// messages: short literals, or "b<n>": n pattern bytes (s + 7i) mod 256
func patBytes(s, n int) []byte {
	b := make([]byte, n)
	for i := 0; i < n; i++ {
		b[i] = byte((s + 7*(i+1)) % 256)
	}
	return b
}
func msgBytes(m string) ([]byte, interface{}) {
	if strings.HasPrefix(m, "b") && len(m) > 1 {
		if n, err := strconv.Atoi(m[1:]); err == nil {
			s := n % 251
			return patBytes(s, n), map[string]int{"pat": s, "len": n}
		}
	}
	return []byte(m), map[string]interface{}{"lit": bytesToInts([]byte(m))}
}

func rescaled(e banderwagon.Element, z *big.Int, flip bool) banderwagon.Element {
	x, y, zz := banderwagon.VerifCoords(&e)
	l := fpFromBig(z)
	x.Mul(&x, &l)
	y.Mul(&y, &l)
	zz.Mul(&zz, &l)
	if flip {
		x.Neg(&x)
		y.Neg(&y)
	}
	return banderwagon.VerifFromCoords(x, y, zz)
}

func pointClass(name string, p *prg) banderwagon.Element {
	cfg := getConf()
	one := big.NewInt(1)
	switch name {
	case "gen":
		return banderwagon.Generator
	case "id":
		return banderwagon.Identity
	case "srs0":
		return cfg.SRS[0]
	case "srs255":
		return cfg.SRS[255]
	case "gen.z2":
		return rescaled(banderwagon.Generator, big.NewInt(2), false)
	case "gen.flip":
		return rescaled(banderwagon.Generator, one, true)
	case "id.flip":
		return rescaled(banderwagon.Identity, one, true)
	case "srs7.zrnd":
		z := p.big(250)
		z.Add(z, one)
		return rescaled(cfg.SRS[7], z, p.intn(2) == 1)
	case "2gen.proj":
		var e banderwagon.Element
		e.Double(&banderwagon.Generator)
		return e
	default:
		var e banderwagon.Element
		e.Add(&cfg.SRS[3], &banderwagon.Generator)
		return e
	}
}

func (d *driver) runTranscriptProgram(w emitter, pid int, line []byte) {
	var p tprog
	if err := json.Unmarshal(line, &p); err != nil {
		panic(fmt.Sprintf("bad transcript program %d: %v", pid, err))
	}
	ops := p.Ops
	twin := append([]top(nil), ops...)
	pos := p.Twin.Pos - 1
	if pos < 0 || pos >= len(twin) {
		pos = len(twin) - 1
	}
	kind := p.Twin.Kind
	switch kind {
	case "swap":
		if pos >= 1 && pos+1 < len(twin)-1 {
			twin[pos], twin[pos+1] = twin[pos+1], twin[pos]
		} else {
			kind = "label"
			twin[pos].Label += "'"
		}
	case "arg":
		if twin[pos].Op == "msg" || twin[pos].Op == "scalar" || twin[pos].Op == "point" {
			twin[pos].Arg += "'"
		} else {
			kind = "label"
			twin[pos].Label += "'"
		}
	case "label":
		twin[pos].Label += "'"
	}
	for run, seq := range [][]top{ops, twin} {
		rnd := newPrg("transcript", d.seed, pid) // same stream for both runs: equal symbolic args give equal values
		var t *common.Transcript
		// scratch variables that live through the whole run: the SAME pointer / slice is handed to the transcript again and again with a
		// changed value (a running accumulator), as opposed to a fresh variable per call
		acc := banderwagon.Generator
		sacc := frFromBig(big.NewInt(41))
		mbuf := []byte("scratch-buffer-0000")
		var hashedPrefix []byte // what the hash state holds besides the pending buffer: the protocol label until the first challenge
		// arena mode (every second program): all labels and all literal messages of the run are carved out of ONE packed array, in call
		// order, WITHOUT a capacity limit (table[a:b], as a caller with a label table or a reused frame would): whatever a call writes
		// behind one of its arguments lands in the arguments of later calls, and the challenges leave the specified chain.  The events
		// log the INTENDED values.
		arenaMode := pid%2 == 1
		var arena, arenaOrig []byte
		labOff := make([][2]int, len(seq))
		msgOff := make([][2]int, len(seq))
		if arenaMode {
			for k, o := range seq {
				lbs := labelBytes(o.Label)
				labOff[k] = [2]int{len(arena), len(arena) + len(lbs)}
				arena = append(arena, lbs...)
				if o.Op == "msg" && strings.TrimSuffix(o.Arg, "'") != "mbuf" {
					m, _ := msgBytes(strings.TrimSuffix(o.Arg, "'"))
					if strings.HasSuffix(o.Arg, "'") {
						m = append(m, 0x27)
					}
					msgOff[k] = [2]int{len(arena), len(arena) + len(m)}
					arena = append(arena, m...)
				}
			}
			arena = append(arena, make([]byte, 2048)...) // spare room behind the last entry
			arenaOrig = append([]byte(nil), arena...)
		}
		for k, o := range seq {
			if o.Op == "hunt" {
				// an input built from the OTHER side: a counter message is searched for (with the driver's own SHA-256) such that the digest
				// of the next challenge lands next to a multiple of r (arg "<k><a|b>": within 2^240 above / below k*r), where the
				// reduction into the scalar field and any shortcut around it are decided; emitted as a msg event and a challenge event
				lb := labelBytes(o.Label)
				kk := int64(o.Arg[0] - '0')
				above := strings.HasSuffix(o.Arg, "a")
				kr := new(big.Int).Mul(modR, big.NewInt(kk))
				win := new(big.Int).Lsh(big.NewInt(1), 240)
				lo, hi := new(big.Int).Sub(kr, win), new(big.Int).Set(kr)
				if above {
					lo, hi = new(big.Int).Set(kr), new(big.Int).Add(kr, win)
				}
				base := append(append(append([]byte(nil), hashedPrefix...), common.VerifPending(t)...), lb...)
				cl := []byte("hunt")
				msg := make([]byte, 8)
				start := uint64(rnd.intn(1 << 30))
				for c := uint64(0); c < 4000000; c++ {
					binary.LittleEndian.PutUint64(msg, start+c)
					h := sha256.Sum256(append(append(append([]byte(nil), base...), msg...), cl...))
					for i, j := 0, 31; i < j; i, j = i+1, j-1 {
						h[i], h[j] = h[j], h[i]
					}
					d := new(big.Int).SetBytes(h[:])
					if d.Cmp(lo) >= 0 && d.Cmp(hi) < 0 {
						break
					}
				}
				t.AppendMessage(msg, lb)
				pend := common.VerifPending(t)
				hs := sha256.Sum256(pend)
				w.emit(ev{"ev": "t", "prog": pid, "run": run, "k": k, "op": "msg", "label": bytesToInts(lb), "last": false, "twin": kind,
					"msg": map[string]interface{}{"lit": bytesToInts(msg)}, "arg_unchanged": true, "pending_len": len(pend), "pending_sha": bytesToInts(hs[:])})
				c := t.ChallengeScalar(cl)
				hashedPrefix = nil
				pend = common.VerifPending(t)
				hs = sha256.Sum256(pend)
				w.emit(ev{"ev": "t", "prog": pid, "run": run, "k": k, "op": "challenge", "label": bytesToInts(cl), "last": false, "twin": kind,
					"out": frReg(&c), "pending_len": len(pend), "pending_sha": bytesToInts(hs[:])})
				continue
			}
			e := ev{"ev": "t", "prog": pid, "run": run, "k": k, "op": o.Op, "label": bytesToInts(labelBytes(o.Label)), "last": k == len(seq)-1, "twin": kind}
			var g tailGuard
			lb := guardSlice(&g, labelBytes(o.Label), byte(0x5a)) // labels and messages are fronts of larger arrays with sentinels behind them
			if arenaMode {
				lb = arena[labOff[k][0]:labOff[k][1]]
				g.checks = append(g.checks, func() bool { return string(arena) == string(arenaOrig) })
			}
			switch o.Op {
			case "new":
				t = common.NewTranscript(string(lb))
				hashedPrefix = append([]byte(nil), lb...)
			case "domsep":
				t.DomainSep(lb)
			case "msg":
				if strings.TrimSuffix(o.Arg, "'") == "mbuf" {
					mbuf[len(mbuf)-1]++ // the same slice, changed in place since the last append
					if strings.HasSuffix(o.Arg, "'") {
						mbuf[0]++
					}
					before := append([]byte(nil), mbuf...)
					t.AppendMessage(mbuf, lb)
					e["msg"] = map[string]interface{}{"lit": bytesToInts(before)}
					e["arg_unchanged"] = string(before) == string(mbuf)
					break
				}
				arg := o.Arg
				extra := strings.HasSuffix(arg, "'")
				arg = strings.TrimSuffix(arg, "'")
				m, enc := msgBytes(arg)
				if extra {
					m = append(m, 0x27)
					enc = map[string]interface{}{"lit": bytesToInts(m)}
				}
				m = guardSlice(&g, m, byte(0x5a))
				if arenaMode {
					m = arena[msgOff[k][0]:msgOff[k][1]]
				}
				before := append([]byte(nil), m...)
				t.AppendMessage(m, lb)
				e["msg"] = enc
				e["arg_unchanged"] = string(before) == string(m)
			case "scalar":
				if strings.TrimSuffix(o.Arg, "'") == "sacc" {
					one := fr.One()
					sacc.Add(&sacc, &one)
					if strings.HasSuffix(o.Arg, "'") {
						sacc.Add(&sacc, &one)
					}
					sb := sacc
					t.AppendScalar(&sacc, lb)
					var rb big.Int
					sb.ToBigIntRegular(&rb)
					e["sval"] = limbsOfBig(&rb)
					e["arg_unchanged"] = sacc == sb
					break
				}
				arg := strings.TrimSuffix(o.Arg, "'")
				v := scalarClass(arg, rnd)
				if arg == "5" {
					v = big.NewInt(5)
				}
				if strings.HasSuffix(o.Arg, "'") {
					v = new(big.Int).Add(v, big.NewInt(1))
					v.Mod(v, modR)
				}
				s := frFromBig(v)
				sb := s
				t.AppendScalar(&s, lb)
				e["sval"] = limbsOfBig(v)
				e["arg_unchanged"] = s == sb
			case "point":
				if strings.TrimSuffix(o.Arg, "'") == "acc" {
					acc.Double(&acc)
					if strings.HasSuffix(o.Arg, "'") {
						acc.Add(&acc, &banderwagon.Generator)
					}
					pb := acc
					t.AppendPoint(&acc, lb)
					e["coords"] = coords(&pb)
					x1, y1, z1 := banderwagon.VerifCoords(&acc)
					x2, y2, z2 := banderwagon.VerifCoords(&pb)
					e["arg_unchanged"] = x1 == x2 && y1 == y2 && z1 == z2
					break
				}
				arg := strings.TrimSuffix(o.Arg, "'")
				pt := pointClass(arg, rnd)
				if strings.HasSuffix(o.Arg, "'") {
					pt.Add(&pt, &banderwagon.Generator)
				}
				pb := pt
				t.AppendPoint(&pt, lb)
				e["coords"] = coords(&pb)
				x1, y1, z1 := banderwagon.VerifCoords(&pt)
				x2, y2, z2 := banderwagon.VerifCoords(&pb)
				e["arg_unchanged"] = x1 == x2 && y1 == y2 && z1 == z2
			case "challenge":
				hashedPrefix = nil
				c := t.ChallengeScalar(lb)
				e["out"] = frReg(&c)
			}
			e["tails_unchanged"] = g.ok()
			pend := common.VerifPending(t)
			h := sha256.Sum256(pend)
			e["pending_len"] = len(pend)
			e["pending_sha"] = bytesToInts(h[:])
			w.emit(e)
		}
	}
	_ = fp.One
}
